//! Per-execution simulator state: virtual clock, timers and the clock thread, site labels,
//! probes, fault counters, violations, thread registry.
//!
//! All simulated threads of one execution are coroutines on one OS thread, so a `thread_local!`
//! is the "global" of the execution. Nothing in here reads a real clock or draws from a PRNG
//! on a logging path.
use std::cell::{Cell, RefCell};
use std::collections::BTreeMap;
use std::panic::Location;
use std::rc::Rc;

use shuttle::thread::{JoinHandle, Thread};

pub const LONG_TIMER_NS: u64 = 1_000_000_000;

#[derive(Clone, Copy)]
pub enum Site {
    None,
    Name(&'static str),
    Loc(&'static Location<'static>),
}
impl Site {
    pub fn hash_into(&self, h: &mut u64) {
        let mut mix = |b: u64| *h = (*h ^ b).wrapping_mul(0x100000001b3);
        match self {
            Site::None => mix(0),
            Site::Name(n) => {
                for b in n.bytes() {
                    mix(b as u64)
                }
            }
            Site::Loc(l) => {
                // file name without its directory (so the hash does not depend on where the
                // repository copy lives) + line
                let f = l.file().rsplit('/').next().unwrap_or("");
                for b in f.bytes() {
                    mix(b as u64)
                }
                mix(l.line() as u64 | 1 << 32)
            }
        }
    }
}
impl std::fmt::Display for Site {
    fn fmt(&self, f: &mut std::fmt::Formatter<'_>) -> std::fmt::Result {
        match self {
            Site::None => write!(f, "-"),
            Site::Name(n) => write!(f, "{n}"),
            Site::Loc(l) => write!(f, "{}:{}", l.file().rsplit('/').next().unwrap_or(""), l.line()),
        }
    }
}

#[derive(Clone, Copy, PartialEq, Eq, Debug)]
pub enum Role {
    Ui,
    Writer(u8),
    Pool(u8),
    Clock,
    Aux(u8),
}
impl Role {
    pub fn code(self) -> u64 {
        match self {
            Role::Ui => 1,
            Role::Clock => 2,
            Role::Writer(k) => 0x100 | k as u64,
            Role::Pool(k) => 0x200 | k as u64,
            Role::Aux(k) => 0x300 | k as u64,
        }
    }
}
impl std::fmt::Display for Role {
    fn fmt(&self, f: &mut std::fmt::Formatter<'_>) -> std::fmt::Result {
        match self {
            Role::Ui => write!(f, "ui"),
            Role::Clock => write!(f, "clock"),
            Role::Writer(k) => write!(f, "writer{k}"),
            Role::Pool(k) => write!(f, "pool{k}"),
            Role::Aux(k) => write!(f, "aux{k}"),
        }
    }
}

struct Timer {
    id: u64,
    deadline: u64,
    long: bool,
    thread: Thread,
    fired: Rc<Cell<bool>>,
}

#[derive(Default, Clone, Debug)]
pub struct Stats {
    pub steps: u64,
    pub decisions: u64,
    pub preemptions: u64,
    pub short_fired: u64,
    pub long_fired: u64,
    pub sim_ns: u64,
    pub tasks: u64,
    pub replay_mismatches: u64,
}

#[derive(Clone, Debug)]
pub struct Violation {
    pub property: String,
    pub class: String,
    pub message: String,
    pub at_decision: u64,
    pub at_seq: u64,
    pub task: usize,
}

/// marker payload of the panic that aborts an execution after a violation was recorded
pub struct ViolationAbort;

/// A store (or an unlock) that its thread has issued but that is not yet visible to the others.
pub enum Pending {
    /// (address, size in bytes, value, was it a SeqCst store)
    Store(usize, u8, u64, bool),
    /// a buffered mutex unlock (owns whatever keeps the mutex alive)
    Action(Box<dyn FnOnce()>),
}

pub struct Sim {
    /// weak-memory mode: plain atomic stores and ArcMutexGuard unlocks go through a per-thread
    /// FIFO store buffer and become visible later (at a SeqCst fence / SeqCst load / read-modify-
    /// write of the same thread, at any release-type operation of the simulator's primitives,
    /// before the thread blocks, or at a random scheduling point). Every behaviour this produces
    /// is allowed by the C++/Rust memory model (store -> later load of another location may be
    /// reordered unless a SeqCst fence intervenes); sequentially consistent runs cannot exhibit
    /// store-buffering outcomes at all.
    pub weak: bool,
    pub flush_ppm: u32,
    sbuf: Vec<std::collections::VecDeque<Pending>>,
    pub now: u64,
    pub step_cost: u64,
    pub p_timer_ppm: u32,
    pub des_only: bool,
    next_timer: u64,
    timers: Vec<Timer>,
    pub clock_task: Option<usize>,
    clock_thread: Option<Thread>,
    clock_parked: bool,
    stop: bool,
    pub sites: Vec<Site>,
    pub roles: Vec<Role>,
    pub stats: Stats,
    pub probes: BTreeMap<&'static str, u64>,
    pub faults: BTreeMap<&'static str, u64>,
    pub violations: Vec<Violation>,
    /// oracle-level violations of properties other than the one under check (do not abort)
    pub others: Vec<Violation>,
    /// the property the current batch decides ("" = every violation aborts)
    pub check_property: &'static str,
    /// chosen task per scheduling decision, and the (role, site) it was about to execute
    pub trace: Vec<u32>,
    pub trace_sites: Vec<(Role, Site)>,
    pub trace_hash: u64,
    /// global event sequence number (harness history events are stamped with it)
    pub seq: u64,
    pub log: Vec<String>,
    pub step_cap: u64,
    /// only every n-th scheduling point of the library's atomics actually yields (1 = all);
    /// runs with thousands of items use a sparser grid to stay affordable
    pub yield_every: u32,
    yield_phase: u32,
    pub shim_rng: SplitMix,
    handles: Vec<JoinHandle<()>>,
}
impl Default for Sim {
    fn default() -> Self {
        Sim {
            weak: false,
            flush_ppm: 100_000,
            sbuf: Vec::new(),
            now: 0,
            step_cost: 1_000,
            p_timer_ppm: 10_000,
            des_only: false,
            next_timer: 0,
            timers: vec![],
            clock_task: None,
            clock_thread: None,
            clock_parked: false,
            stop: false,
            sites: vec![],
            roles: vec![],
            stats: Stats::default(),
            probes: BTreeMap::new(),
            faults: BTreeMap::new(),
            violations: vec![],
            others: vec![],
            check_property: "",
            trace: vec![],
            trace_sites: vec![],
            trace_hash: 0xcbf29ce484222325,
            seq: 0,
            log: vec![],
            step_cap: u64::MAX,
            yield_every: 1,
            yield_phase: 0,
            shim_rng: SplitMix(0),
            handles: vec![],
        }
    }
}

#[derive(Clone, Debug)]
pub struct SplitMix(pub u64);
impl SplitMix {
    pub fn next(&mut self) -> u64 {
        self.0 = self.0.wrapping_add(0x9E3779B97F4A7C15);
        let mut z = self.0;
        z = (z ^ (z >> 30)).wrapping_mul(0xBF58476D1CE4E5B9);
        z = (z ^ (z >> 27)).wrapping_mul(0x94D049BB133111EB);
        z ^ (z >> 31)
    }
    pub fn below(&mut self, n: u64) -> u64 {
        if n == 0 {
            0
        } else {
            self.next() % n
        }
    }
    pub fn chance_ppm(&mut self, ppm: u32) -> bool {
        (self.next() % 1_000_000) < ppm as u64
    }
    pub fn derive(seed: u64, stream: u64) -> SplitMix {
        let mut s = SplitMix(seed ^ stream.wrapping_mul(0xD6E8FEB86659FD93));
        s.next();
        SplitMix(s.next())
    }
}

thread_local! {
    static SIM: RefCell<Sim> = RefCell::new(Sim::default());
    static ACTIVE: Cell<bool> = const { Cell::new(false) };
    static QUIET: Cell<u32> = const { Cell::new(0) };
}

/// While a `Quiet` guard lives, scheduling points of the current thread are skipped: the thread
/// runs the enclosed block atomically (one of the legal schedules). Used by oracle code that reads
/// through the public API; happens-before bookkeeping stays on.
pub struct Quiet(());
pub fn quiet() -> Quiet {
    QUIET.with(|q| q.set(q.get() + 1));
    Quiet(())
}
impl Drop for Quiet {
    fn drop(&mut self) {
        QUIET.with(|q| q.set(q.get() - 1));
    }
}

pub fn with<R>(f: impl FnOnce(&mut Sim) -> R) -> R {
    SIM.with(|s| f(&mut s.borrow_mut()))
}
/// true while a simulated execution is running on this OS thread
#[inline]
pub fn active() -> bool {
    ACTIVE.with(|a| a.get())
}
pub fn set_active(on: bool) {
    ACTIVE.with(|a| a.set(on))
}
pub fn reset(cfg: impl FnOnce(&mut Sim)) {
    QUIET.with(|q| q.set(0));
    with(|s| {
        *s = Sim::default();
        cfg(s)
    });
    crate::hb::reset(true);
}
#[inline]
pub fn me() -> usize {
    usize::from(shuttle::current::me())
}
pub fn now() -> u64 {
    with(|s| s.now)
}
pub fn seq() -> u64 {
    with(|s| {
        s.seq += 1;
        s.seq
    })
}
pub fn set_role(r: Role) {
    let t = me();
    with(|s| {
        if s.roles.len() <= t {
            s.roles.resize(t + 1, Role::Aux(0));
        }
        s.roles[t] = r;
        s.stats.tasks = s.stats.tasks.max(t as u64 + 1);
    })
}
pub fn role_of(t: usize) -> Role {
    with(|s| s.roles.get(t).copied().unwrap_or(Role::Aux(0)))
}
pub fn my_role() -> Role {
    role_of(me())
}
pub fn probe(name: &'static str) {
    if active() {
        with(|s| *s.probes.entry(name).or_insert(0) += 1)
    }
}
pub fn fault(name: &'static str) {
    if active() {
        with(|s| *s.faults.entry(name).or_insert(0) += 1)
    }
}
pub fn log(msg: String) {
    if active() {
        with(|s| {
            if s.log.len() < 4000 {
                let seq = s.seq;
                s.log.push(format!("[{seq}] {msg}"))
            }
        })
    }
}
pub fn shim_u64() -> u64 {
    with(|s| s.shim_rng.next())
}
pub fn shim_below(n: u64) -> u64 {
    with(|s| s.shim_rng.below(n))
}
pub fn set_des_only(on: bool) {
    with(|s| s.des_only = on)
}

fn set_site(site: Site) {
    let t = me();
    with(|s| {
        if s.sites.len() <= t {
            s.sites.resize(t + 1, Site::None);
        }
        s.sites[t] = site;
    });
}

/// does a violation tagged `tag` ("C06", "C06+C12", "*") count for property `p`?
pub fn counts_for(tag: &str, p: &str) -> bool {
    p.is_empty() || tag == "*" || tag.split('+').any(|t| t == p)
}
/// Oracle-level violation (the execution can meaningfully continue): aborts only if it counts for
/// the property under check; otherwise it is noted and the run goes on, so that a defect in one
/// property does not mask the oracle of another.
pub fn soft_violation(property: &str, class: &str, message: String) {
    let check = with(|s| s.check_property);
    if counts_for(property, check) {
        violation(property, class, message)
    }
    let task = if active() { me() } else { usize::MAX };
    with(|s| {
        if s.others.len() < 8 {
            let v = Violation {
                property: property.to_string(),
                class: class.to_string(),
                message,
                at_decision: s.stats.decisions,
                at_seq: s.seq,
                task,
            };
            s.others.push(v);
        }
    });
}

// ---- weak-memory mode: per-thread store buffers -------------------------------------------------

#[inline]
pub fn weak() -> bool {
    active() && with(|s| s.weak)
}
pub fn buffer_store(addr: usize, size: u8, value: u64, seq_cst: bool) {
    let t = me();
    let overflow = with(|s| {
        if s.sbuf.len() <= t {
            s.sbuf.resize_with(t + 1, Default::default);
        }
        s.sbuf[t].push_back(Pending::Store(addr, size, value, seq_cst));
        *s.probes.entry("weak.stores_buffered").or_insert(0) += 1;
        s.sbuf[t].len() > 6
    });
    if overflow {
        flush_one(t);
    }
}
pub fn buffer_action(f: Box<dyn FnOnce()>) {
    let t = me();
    with(|s| {
        if s.sbuf.len() <= t {
            s.sbuf.resize_with(t + 1, Default::default);
        }
        s.sbuf[t].push_back(Pending::Action(f));
        *s.probes.entry("weak.unlocks_buffered").or_insert(0) += 1;
    });
}
/// store forwarding: the latest value this thread has buffered for `addr`
pub fn forwarded(addr: usize) -> Option<u64> {
    let t = me();
    with(|s| {
        s.sbuf.get(t).and_then(|b| {
            b.iter().rev().find_map(|p| match p {
                Pending::Store(a, _, v, _) if *a == addr => Some(*v),
                _ => None,
            })
        })
    })
}
pub fn has_pending_action() -> bool {
    let t = me();
    with(|s| s.sbuf.get(t).is_some_and(|b| b.iter().any(|p| matches!(p, Pending::Action(_)))))
}
fn apply(p: Pending) {
    use std::sync::atomic::{AtomicBool, AtomicU32, AtomicU64, Ordering::SeqCst};
    match p {
        Pending::Store(addr, size, v, _) => unsafe {
            match size {
                1 => (*(addr as *const AtomicBool)).store(v != 0, SeqCst),
                4 => (*(addr as *const AtomicU32)).store(v as u32, SeqCst),
                _ => (*(addr as *const AtomicU64)).store(v, SeqCst),
            }
        },
        // may unpark waiters (a scheduling point): never called while SIM is borrowed
        Pending::Action(f) => f(),
    }
}
fn flush_one(t: usize) -> bool {
    match with(|s| s.sbuf.get_mut(t).and_then(|b| b.pop_front())) {
        Some(p) => {
            apply(p);
            true
        }
        None => false,
    }
}
/// make every buffered store of the current thread visible, in order
pub fn flush_mine() {
    if !active() {
        return;
    }
    let t = me();
    while flush_one(t) {}
}
/// A SeqCst load is ordered after the thread's earlier SeqCst stores (single total order of SeqCst
/// operations) but not after its earlier release stores or unlocks: drain the buffer up to and
/// including the last SeqCst store.
pub fn flush_seq_cst() {
    if !active() {
        return;
    }
    let t = me();
    loop {
        let more = with(|s| s.sbuf.get(t).is_some_and(|b| b.iter().any(|p| matches!(p, Pending::Store(_, _, _, true)))));
        if !more || !flush_one(t) {
            break;
        }
    }
}
/// memory is about to be reused / exclusively accessed: flush pending stores into it (all threads)
pub fn flush_range(base: usize, len: usize) {
    if !active() {
        return;
    }
    let n = with(|s| s.sbuf.len());
    for t in 0..n {
        let hit = with(|s| s.sbuf[t].iter().any(|p| matches!(p, Pending::Store(a, _, _, _) if *a >= base && *a < base + len)));
        if hit {
            // keep the thread's order: flush up to and including the last hit
            loop {
                let more = with(|s| s.sbuf[t].iter().any(|p| matches!(p, Pending::Store(a, _, _, _) if *a >= base && *a < base + len)));
                if !more || !flush_one(t) {
                    break;
                }
            }
        }
    }
}
pub fn flush_all() {
    if !active() {
        return;
    }
    let n = with(|s| s.sbuf.len());
    for t in 0..n {
        while flush_one(t) {}
    }
}
/// block the current thread; a thread that blocks has drained its store buffer
pub fn park() {
    if weak() && with(|s| s.sbuf.get(me()).is_some_and(|b| !b.is_empty())) {
        // the buffer drains "eventually": others may run before it does
        sched_point(Site::Name("drain.before_block"));
    }
    flush_mine();
    shuttle::thread::park();
}

/// Record a violation and abort the execution.
pub fn violation(property: &str, class: &str, message: String) -> ! {
    record_violation(property, class, message);
    std::panic::resume_unwind(Box::new(ViolationAbort))
}
pub fn record_violation(property: &str, class: &str, message: String) {
    let task = if active() { me() } else { usize::MAX };
    with(|s| {
        let v = Violation {
            property: property.to_string(),
            class: class.to_string(),
            message,
            at_decision: s.stats.decisions,
            at_seq: s.seq,
            task,
        };
        s.violations.push(v);
    });
}

/// A scheduling point: label it, let the scheduler run someone else, then account simulated time.
#[inline]
pub fn sched_point(site: Site) {
    // a thread that is unwinding runs to the end of its unwind: the failure that started it must
    // be the one that is reported
    if !active() || QUIET.with(|q| q.get()) > 0 || std::thread::panicking() {
        return;
    }
    if matches!(site, Site::Loc(_)) {
        let skip = with(|s| {
            if s.yield_every <= 1 {
                return false;
            }
            s.yield_phase = (s.yield_phase + 1) % s.yield_every;
            if s.yield_phase != 0 {
                s.stats.steps += 1;
                s.now += s.step_cost;
                return true;
            }
            false
        });
        if skip {
            return;
        }
    }
    set_site(site);
    shuttle::thread::yield_now();
    let drain = with(|s| {
        s.weak && {
            let t = usize::from(shuttle::current::me());
            s.sbuf.get(t).is_some_and(|b| !b.is_empty()) && s.shim_rng.chance_ppm(s.flush_ppm)
        }
    });
    if drain {
        flush_one(me());
    }
    let (due, over) = with(|s| {
        s.stats.steps += 1;
        s.now += s.step_cost;
        let over = s.stats.steps > s.step_cap;
        if s.des_only || s.timers.is_empty() {
            return (Vec::new(), over);
        }
        let now = s.now;
        let mut out = vec![];
        s.timers.retain(|t| {
            if !t.long && t.deadline <= now {
                t.fired.set(true);
                out.push(t.thread.clone());
                false
            } else {
                true
            }
        });
        s.stats.short_fired += out.len() as u64;
        (out, over)
    });
    for t in due {
        t.unpark();
    }
    if over {
        with(|s| s.step_cap = u64::MAX);
        violation("*", "no-progress", "step cap exceeded".to_string());
    }
}

pub struct TimerHandle {
    id: u64,
    pub fired: Rc<Cell<bool>>,
}
pub fn add_timer(after_ns: u64) -> TimerHandle {
    let (h, wake) = with(|s| {
        let id = s.next_timer;
        s.next_timer += 1;
        let fired = Rc::new(Cell::new(false));
        s.timers.push(Timer {
            id,
            deadline: s.now + after_ns,
            long: after_ns >= LONG_TIMER_NS,
            thread: shuttle::thread::current(),
            fired: fired.clone(),
        });
        s.timers.sort_by_key(|t| (t.deadline, t.id));
        let wake = if s.clock_parked {
            s.clock_parked = false;
            s.clock_thread.clone()
        } else {
            None
        };
        (TimerHandle { id, fired }, wake)
    });
    if let Some(t) = wake {
        t.unpark();
    }
    h
}
pub fn cancel_timer(h: &TimerHandle) {
    with(|s| s.timers.retain(|t| t.id != h.id))
}
/// (is a timer pending, is the earliest one long)
pub fn next_timer_kind() -> Option<bool> {
    with(|s| s.timers.first().map(|t| t.long))
}

/// Body of the clock thread. Being scheduled at its `clock.fire` point *is* the decision to let
/// the earliest timer expire (the scheduler applies the eligibility rules).
pub fn clock_main() {
    set_role(Role::Clock);
    with(|s| {
        s.clock_task = Some(me());
        s.clock_thread = Some(shuttle::thread::current());
    });
    loop {
        enum A {
            Exit,
            Park,
            Fire,
        }
        let a = with(|s| {
            if s.stop {
                A::Exit
            } else if s.timers.is_empty() {
                s.clock_parked = true;
                A::Park
            } else {
                A::Fire
            }
        });
        match a {
            A::Exit => break,
            A::Park => shuttle::thread::park(),
            A::Fire => {
                set_site(Site::Name("clock.fire"));
                shuttle::thread::yield_now();
                let th = with(|s| {
                    if s.stop || s.timers.is_empty() {
                        return None;
                    }
                    let t = s.timers.remove(0);
                    if t.deadline > s.now {
                        s.now = t.deadline;
                    }
                    t.fired.set(true);
                    if t.long {
                        s.stats.long_fired += 1;
                    } else {
                        s.stats.short_fired += 1
                    };
                    Some(t.thread)
                });
                set_site(Site::Name("clock.idle"));
                if let Some(t) = th {
                    t.unpark();
                }
            }
        }
    }
}
pub fn stop_clock() {
    let t = with(|s| {
        s.stop = true;
        s.clock_parked = false;
        s.clock_thread.clone()
    });
    if let Some(t) = t {
        t.unpark();
    }
}

/// Spawn a simulated thread whose join handle is kept by the simulator, so that the main thread
/// can drain every thread at the end of the execution (`drain`). Carries a fork edge for the
/// happens-before monitor.
pub fn spawn_registered(role: Role, f: impl FnOnce() + Send + 'static) {
    let tok = crate::hb::release_token();
    let h = shuttle::thread::spawn(move || {
        set_role(role);
        crate::hb::acquire_token(&tok);
        f();
        flush_mine();
    });
    with(|s| s.handles.push(h));
}
/// Join every registered thread (pool threads, clock). Called by the main thread as its last act.
pub fn drain() {
    flush_all();
    loop {
        let h = with(|s| s.handles.pop());
        match h {
            Some(h) => {
                let _ = h.join();
            }
            None => break,
        }
    }
}

/// Level-triggered event for the harness (`notify` closure → event loop).
pub struct Event {
    flag: Cell<bool>,
    waiter: RefCell<Option<Thread>>,
    pub sets: Cell<u64>,
}
unsafe impl Sync for Event {}
unsafe impl Send for Event {}
impl Default for Event {
    fn default() -> Self {
        Self::new()
    }
}
impl Event {
    pub fn new() -> Self {
        Event { flag: Cell::new(false), waiter: RefCell::new(None), sets: Cell::new(0) }
    }
    pub fn set(&self) {
        flush_mine();
        self.flag.set(true);
        self.sets.set(self.sets.get() + 1);
        let t = self.waiter.borrow_mut().take();
        if let Some(t) = t {
            t.unpark();
        }
    }
    pub fn take(&self) -> bool {
        self.flag.replace(false)
    }
    pub fn is_set(&self) -> bool {
        self.flag.get()
    }
    /// Wait until set or until the timer fires; true = was set.
    pub fn wait(&self, timeout_ns: u64) -> bool {
        if self.flag.replace(false) {
            return true;
        }
        let h = add_timer(timeout_ns);
        loop {
            // add_timer/unpark are scheduling points: register first, then re-check, then park
            *self.waiter.borrow_mut() = Some(shuttle::thread::current());
            if self.flag.replace(false) {
                self.waiter.borrow_mut().take();
                cancel_timer(&h);
                return true;
            }
            if h.fired.get() {
                self.waiter.borrow_mut().take();
                return false;
            }
            set_site(Site::Name("event.wait"));
            park();
        }
    }
}

/// A gate simulated threads park on until the script opens it (fault F1: a writer held between
/// index reservation and publication).
#[derive(Default)]
pub struct Gate {
    open: Cell<bool>,
    waiters: RefCell<Vec<Thread>>,
}
unsafe impl Sync for Gate {}
unsafe impl Send for Gate {}
impl Gate {
    pub fn open(&self) {
        flush_mine();
        self.open.set(true);
        let ws: Vec<Thread> = self.waiters.borrow_mut().drain(..).collect();
        for t in ws {
            t.unpark();
        }
    }
    pub fn is_open(&self) -> bool {
        self.open.get()
    }
    pub fn wait(&self) {
        while !self.open.get() {
            self.waiters.borrow_mut().push(shuttle::thread::current());
            set_site(Site::Name("gate.wait"));
            park();
        }
    }
}
