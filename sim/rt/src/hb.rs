//! Happens-before monitor: vector clocks over the orderings the source declares.
//!
//! The simulator executes sequentially consistent interleavings, so weakening an `Ordering` never
//! changes what a run computes. Data races (property C09) are therefore decided by a FastTrack
//! style analysis of each executed trace: every plain access the library makes to shared memory
//! (reported by add-only hooks in `/repo/src`) must be ordered, by the happens-before relation
//! built from fork/join, lock hand-over and the *declared* atomic orderings, after the last
//! conflicting access.
#![cfg_attr(not(feature = "sim"), allow(unused_variables, dead_code))]
use std::sync::atomic::Ordering;

pub type VC = Vec<u32>;

#[cfg(not(feature = "sim"))]
mod imp {
    use super::*;
    pub fn atomic_load(_: usize, _: Ordering) {}
    pub fn atomic_store(_: usize, _: Ordering) {}
    pub fn atomic_rmw(_: usize, _: Ordering) {}
    pub fn fence(_: Ordering) {}
    pub fn plain_write(_: usize, _: &'static str) {}
    pub fn plain_read(_: usize, _: &'static str) {}
    pub fn region_init(_: usize, _: usize) {}
    pub fn region_stride(_: usize, _: usize) {}
    pub fn forget(_: usize, _: usize) {}
    pub fn release_token() -> VC {
        Vec::new()
    }
    pub fn release_token_buffered() -> VC {
        Vec::new()
    }
    pub fn acquire_token(_: &VC) {}
}

#[cfg(feature = "sim")]
mod imp {
    use super::*;
    use std::cell::RefCell;
    use std::collections::HashMap;

    fn join(a: &mut VC, b: &VC) {
        if a.len() < b.len() {
            a.resize(b.len(), 0);
        }
        for (i, x) in b.iter().enumerate() {
            if a[i] < *x {
                a[i] = *x;
            }
        }
    }
    fn knows(vc: &VC, tid: usize, clk: u32) -> bool {
        vc.get(tid).copied().unwrap_or(0) >= clk
    }
    struct Region {
        base: usize,
        len: usize,
        /// size of one entry (0 = unknown): an access anywhere inside an entry is an access to
        /// that entry, so accesses made by user code (fill callbacks writing matcher columns)
        /// and by the library's own hooks meet at one key
        stride: usize,
        tid: usize,
        clk: u32,
    }
    #[derive(Default)]
    struct CellState {
        w: Option<(usize, u32, &'static str)>,
        r: VC,
        rsite: &'static str,
    }
    #[derive(Default)]
    struct ThreadState {
        vc: VC,
        /// clock at the last release fence (published by later relaxed stores)
        fence_rel: Option<VC>,
        /// join of the release clocks of everything read relaxed (joined in by an acquire fence)
        acq_pending: VC,
    }
    #[derive(Default)]
    pub struct Hb {
        on: bool,
        threads: Vec<ThreadState>,
        atomics: HashMap<usize, VC>,
        regions: Vec<Region>,
        cells: HashMap<usize, CellState>,
        sc_fence: VC,
        pub plain_checks: u64,
        pub atomic_ops: u64,
        pub races: u64,
    }
    thread_local! { static HB: RefCell<Hb> = RefCell::new(Hb::default()); }

    impl Hb {
        fn th(&mut self, t: usize) -> &mut ThreadState {
            if self.threads.len() <= t {
                self.threads.resize_with(t + 1, Default::default);
            }
            let ts = &mut self.threads[t];
            if ts.vc.len() <= t {
                ts.vc.resize(t + 1, 0);
            }
            if ts.vc[t] == 0 {
                ts.vc[t] = 1;
            }
            ts
        }
        fn tick(&mut self, t: usize) {
            self.th(t).vc[t] += 1;
        }
        /// the key of the entry that contains `addr` (or `addr` itself outside known buckets)
        fn canon(&self, addr: usize) -> usize {
            for r in &self.regions {
                if addr >= r.base && addr < r.base + r.len {
                    if r.stride > 0 {
                        return r.base + (addr - r.base) / r.stride * r.stride;
                    }
                    return addr;
                }
            }
            addr
        }
        fn region_check(&mut self, t: usize, addr: usize, what: &str) -> Option<String> {
            if self.regions.is_empty() {
                return None;
            }
            let vc = &self.threads[t].vc;
            for r in &self.regions {
                if addr >= r.base && addr < r.base + r.len {
                    if !knows(vc, r.tid, r.clk) {
                        return Some(format!(
                            "{what} by task {t} is not ordered after the non-atomic bucket initialisation by task {}",
                            r.tid
                        ));
                    }
                    return None;
                }
            }
            None
        }
    }

    pub fn reset(on: bool) {
        HB.with(|h| {
            *h.borrow_mut() = Hb { on, ..Default::default() };
        });
    }
    /// (plain accesses checked, atomic operations seen, races)
    pub fn counters() -> (u64, u64, u64) {
        HB.with(|h| {
            let h = h.borrow();
            (h.plain_checks, h.atomic_ops, h.races)
        })
    }

    fn with(f: impl FnOnce(&mut Hb, usize) -> Option<String>) {
        if !crate::sim::active() {
            return;
        }
        let msg = HB.with(|h| {
            let mut h = h.borrow_mut();
            if !h.on {
                return None;
            }
            let t = crate::sim::me();
            h.th(t);
            let m = f(&mut h, t);
            if m.is_some() {
                h.races += 1;
            }
            m
        });
        if let Some(m) = msg {
            crate::sim::violation("C09", "data-race", m);
        }
    }
    fn acq(o: Ordering) -> bool {
        matches!(o, Ordering::Acquire | Ordering::AcqRel | Ordering::SeqCst)
    }
    fn rel(o: Ordering) -> bool {
        matches!(o, Ordering::Release | Ordering::AcqRel | Ordering::SeqCst)
    }

    pub fn atomic_load(addr: usize, o: Ordering) {
        with(|h, t| {
            h.atomic_ops += 1;
            let m = h.region_check(t, addr, "atomic load");
            if let Some(c) = h.atomics.get(&addr).cloned() {
                if acq(o) {
                    join(&mut h.th(t).vc, &c);
                } else {
                    join(&mut h.th(t).acq_pending, &c);
                }
            }
            m
        })
    }
    pub fn atomic_store(addr: usize, o: Ordering) {
        with(|h, t| {
            h.atomic_ops += 1;
            let m = h.region_check(t, addr, "atomic store");
            if rel(o) {
                let c = h.th(t).vc.clone();
                h.atomics.insert(addr, c);
                h.tick(t);
            } else if let Some(c) = h.th(t).fence_rel.clone() {
                h.atomics.insert(addr, c);
            } else {
                h.atomics.remove(&addr);
            }
            m
        })
    }
    pub fn atomic_rmw(addr: usize, o: Ordering) {
        with(|h, t| {
            h.atomic_ops += 1;
            let m = h.region_check(t, addr, "atomic read-modify-write");
            if let Some(c) = h.atomics.get(&addr).cloned() {
                if acq(o) {
                    join(&mut h.th(t).vc, &c);
                } else {
                    join(&mut h.th(t).acq_pending, &c);
                }
            }
            // a read-modify-write continues the release sequence of the location
            if rel(o) {
                let c = h.th(t).vc.clone();
                join(h.atomics.entry(addr).or_default(), &c);
                h.tick(t);
            } else if let Some(c) = h.th(t).fence_rel.clone() {
                join(h.atomics.entry(addr).or_default(), &c);
            }
            m
        })
    }
    pub fn fence(o: Ordering) {
        with(|h, t| {
            if acq(o) {
                let p = std::mem::take(&mut h.th(t).acq_pending);
                join(&mut h.th(t).vc, &p);
            }
            if matches!(o, Ordering::SeqCst) {
                // SeqCst fences are totally ordered; treating that order as synchronisation can
                // only hide races, never invent one
                let sc = h.sc_fence.clone();
                join(&mut h.th(t).vc, &sc);
                h.sc_fence = h.th(t).vc.clone();
            }
            if rel(o) {
                let c = h.th(t).vc.clone();
                h.th(t).fence_rel = Some(c);
                h.tick(t);
            }
            None
        })
    }
    pub fn plain_write(addr: usize, site: &'static str) {
        with(|h, t| {
            let addr = h.canon(addr);
            h.plain_checks += 1;
            let mut msg = h.region_check(t, addr, site);
            let vc = h.threads[t].vc.clone();
            let cell = h.cells.entry(addr).or_default();
            if let Some((wt, wc, ws)) = cell.w {
                if wt != t && !knows(&vc, wt, wc) {
                    msg = Some(format!("write at {site} by task {t} races with write at {ws} by task {wt}"));
                }
            }
            for (rt, rc) in cell.r.iter().enumerate() {
                if *rc > 0 && rt != t && !knows(&vc, rt, *rc) {
                    msg = Some(format!(
                        "write at {site} by task {t} races with read at {} by task {rt}",
                        cell.rsite
                    ));
                }
            }
            cell.w = Some((t, vc[t], site));
            cell.r.clear();
            msg
        })
    }
    pub fn plain_read(addr: usize, site: &'static str) {
        with(|h, t| {
            let addr = h.canon(addr);
            h.plain_checks += 1;
            let mut msg = h.region_check(t, addr, site);
            let vc = h.threads[t].vc.clone();
            let cell = h.cells.entry(addr).or_default();
            if let Some((wt, wc, ws)) = cell.w {
                if wt != t && !knows(&vc, wt, wc) {
                    msg = Some(format!("read at {site} by task {t} races with write at {ws} by task {wt}"));
                }
            }
            if cell.r.len() <= t {
                cell.r.resize(t + 1, 0);
            }
            cell.r[t] = vc[t];
            cell.rsite = site;
            msg
        })
    }
    /// a freshly allocated, plainly initialised block that contains atomics (a bucket)
    pub fn region_init(base: usize, len: usize) {
        with(|h, t| {
            forget_in(h, base, len);
            let c = h.threads[t].vc[t];
            h.regions.push(Region { base, len, stride: 0, tid: t, clk: c });
            // later events of this task must be distinguishable from the initialisation
            h.tick(t);
            None
        })
    }
    /// entry size of the bucket that starts at `base`
    pub fn region_stride(base: usize, stride: usize) {
        with(|h, _t| {
            if let Some(r) = h.regions.iter_mut().find(|r| r.base == base) {
                r.stride = stride;
            }
            None
        })
    }
    fn forget_in(h: &mut Hb, base: usize, len: usize) {
        h.regions.retain(|r| r.base + r.len <= base || r.base >= base + len);
        h.cells.retain(|a, _| *a < base || *a >= base + len);
        h.atomics.retain(|a, _| *a < base || *a >= base + len);
    }
    /// memory is being returned to the allocator: drop all metadata for it
    pub fn forget(base: usize, len: usize) {
        crate::sim::flush_range(base, len);
        with(|h, _t| {
            forget_in(h, base, len);
            None
        })
    }
    /// release edge carried by a token (thread spawn, job hand-over, unlock, end of a joined half).
    /// In weak-memory mode a release-type operation first drains the thread's store buffer.
    pub fn release_token() -> VC {
        crate::sim::flush_mine();
        release_token_buffered()
    }
    /// as `release_token` but without draining the store buffer (the operation itself is going
    /// to be buffered behind the pending stores)
    pub fn release_token_buffered() -> VC {
        if !crate::sim::active() {
            return Vec::new();
        }
        HB.with(|h| {
            let mut h = h.borrow_mut();
            if !h.on {
                return Vec::new();
            }
            let t = crate::sim::me();
            let c = h.th(t).vc.clone();
            h.tick(t);
            c
        })
    }
    pub fn acquire_token(c: &VC) {
        if c.is_empty() || !crate::sim::active() {
            return;
        }
        HB.with(|h| {
            let mut h = h.borrow_mut();
            if !h.on {
                return;
            }
            let t = crate::sim::me();
            join(&mut h.th(t).vc, c);
        })
    }
}
pub use imp::*;
