//! The scheduler: one seeded PRNG decides every interleaving; swarm of strategies; trace
//! recording; trace-driven replay with fallback.
use crate::sim::{self, Role, Site, SplitMix};
use shuttle::scheduler::{Schedule, Scheduler, Task, TaskId};

#[derive(Clone, Debug, PartialEq)]
pub enum Strategy {
    /// uniform choice among runnable threads at every point
    Uniform,
    /// keep running the current thread with probability p/1000
    Sticky(u32),
    /// probabilistic concurrency testing: random priorities, `change_points` priority drops at
    /// the given decision indices
    Pct { change_points: Vec<u64> },
    /// threads whose role matches `victims` are not scheduled inside the decision window unless
    /// nothing else is runnable (slow / stalled node); uniform otherwise
    Starve { victims: RoleMask, from: u64, len: u64, sticky: u32 },
}
impl Strategy {
    pub fn name(&self) -> &'static str {
        match self {
            Strategy::Uniform => "uniform",
            Strategy::Sticky(_) => "sticky",
            Strategy::Pct { .. } => "pct",
            Strategy::Starve { .. } => "starve",
        }
    }
}

#[derive(Clone, Copy, Debug, PartialEq, Default)]
pub struct RoleMask {
    pub ui: bool,
    pub pool: bool,
    /// bit k = writer k
    pub writers: u32,
}
impl RoleMask {
    pub fn matches(&self, r: Role) -> bool {
        match r {
            Role::Ui => self.ui,
            Role::Pool(_) => self.pool,
            Role::Writer(k) => self.writers & (1 << (k as u32 % 32)) != 0,
            _ => false,
        }
    }
}

pub struct SimScheduler {
    rng: SplitMix,
    strategy: Strategy,
    replay: Option<Vec<u32>>,
    pos: u64,
    started: bool,
    prio: Vec<u64>,
    low: u64,
}
impl SimScheduler {
    /// One scheduler = one execution.
    pub fn new(schedule_seed: u64, strategy: Strategy, replay: Option<Vec<u32>>) -> Self {
        SimScheduler {
            rng: SplitMix::derive(schedule_seed, 0x5C4ED),
            strategy,
            replay,
            pos: 0,
            started: false,
            prio: vec![],
            low: u64::MAX / 2,
        }
    }
    fn prio_of(&mut self, t: usize) -> u64 {
        while self.prio.len() <= t {
            // fresh tasks get a random priority above every lowered one
            let p = u64::MAX / 2 + 1 + self.rng.next() % (u64::MAX / 4);
            self.prio.push(p);
        }
        self.prio[t]
    }
}
impl std::fmt::Debug for SimScheduler {
    fn fmt(&self, f: &mut std::fmt::Formatter<'_>) -> std::fmt::Result {
        write!(f, "SimScheduler({})", self.strategy.name())
    }
}
impl Scheduler for SimScheduler {
    fn new_execution(&mut self) -> Option<Schedule> {
        if self.started {
            return None;
        }
        self.started = true;
        Some(Schedule::new(0))
    }
    fn next_task(&mut self, runnable: &[&Task], current: Option<TaskId>, _yielding: bool) -> Option<TaskId> {
        // shuttle offers parked tasks too (it models spurious wake-ups); never take them,
        // otherwise "nothing else is runnable" is never true
        let mut ids: Vec<usize> =
            runnable.iter().filter(|t| t.runnable()).map(|t| usize::from(t.id())).collect();
        if ids.is_empty() {
            // only parked tasks are left: a deadlock; let shuttle report it
            return None;
        }
        ids.sort_unstable();
        let cur = current.map(usize::from);
        let pos = self.pos;
        self.pos += 1;

        // clock thread eligibility: a short timer may fire at any point with probability
        // p_timer; a long timer (and every timer in discrete-event-only mode) fires only when
        // nothing else is runnable
        let (clock, p_ppm, des) = sim::with(|s| (s.clock_task, s.p_timer_ppm, s.des_only));
        let mut clock_allowed = false;
        if let Some(c) = clock {
            if ids.len() > 1 && ids.contains(&c) {
                let firing = sim::with(|s| matches!(s.sites.get(c), Some(Site::Name("clock.fire"))));
                if firing {
                    let long = sim::next_timer_kind().unwrap_or(true);
                    // the coin is drawn even in replay mode so the stream stays aligned
                    let coin = self.rng.chance_ppm(p_ppm);
                    clock_allowed = !long && !des && coin;
                    if !clock_allowed && self.replay.is_none() {
                        ids.retain(|i| *i != c);
                    }
                }
            }
        }

        let pick = if let Some(r) = &self.replay {
            match r.get(pos as usize).map(|x| *x as usize) {
                Some(w) if ids.contains(&w) => w,
                _ => {
                    sim::with(|s| s.stats.replay_mismatches += 1);
                    // fallback: continue the current thread, else the lowest runnable non-clock
                    let non_clock: Vec<usize> = ids.iter().copied().filter(|i| Some(*i) != clock).collect();
                    let pool = if non_clock.is_empty() { &ids } else { &non_clock };
                    match cur {
                        Some(c) if pool.contains(&c) => c,
                        _ => pool[0],
                    }
                }
            }
        } else if clock_allowed {
            clock.unwrap()
        } else {
            let cur_ok = cur.is_some_and(|c| ids.contains(&c));
            match &self.strategy {
                Strategy::Uniform => ids[self.rng.below(ids.len() as u64) as usize],
                Strategy::Sticky(p) => {
                    let p = *p;
                    if cur_ok && self.rng.below(1000) < p as u64 {
                        cur.unwrap()
                    } else {
                        ids[self.rng.below(ids.len() as u64) as usize]
                    }
                }
                Strategy::Pct { change_points } => {
                    if cur_ok && change_points.contains(&pos) {
                        let c = cur.unwrap();
                        self.prio_of(c);
                        self.low -= 1;
                        self.prio[c] = self.low;
                    }
                    let mut best = ids[0];
                    let mut bp = 0;
                    for &i in &ids {
                        let p = self.prio_of(i);
                        if p >= bp {
                            bp = p;
                            best = i;
                        }
                    }
                    best
                }
                Strategy::Starve { victims, from, len, sticky } => {
                    let in_window = pos >= *from && pos < from + len;
                    let cand: Vec<usize> = if in_window {
                        let c: Vec<usize> =
                            ids.iter().copied().filter(|i| !victims.matches(sim::role_of(*i))).collect();
                        if c.is_empty() {
                            ids.clone()
                        } else {
                            c
                        }
                    } else {
                        ids.clone()
                    };
                    if cur.is_some_and(|c| cand.contains(&c)) && self.rng.below(1000) < *sticky as u64 {
                        cur.unwrap()
                    } else {
                        cand[self.rng.below(cand.len() as u64) as usize]
                    }
                }
            }
        };

        sim::with(|s| {
            s.stats.decisions += 1;
            if let Some(c) = cur {
                if c != pick && ids.contains(&c) {
                    s.stats.preemptions += 1;
                }
            }
            let site = s.sites.get(pick).copied().unwrap_or(Site::None);
            let role = s.roles.get(pick).copied().unwrap_or(Role::Aux(0));
            s.trace.push(pick as u32);
            s.trace_sites.push((role, site));
            let mut h = s.trace_hash;
            h = (h ^ role.code()).wrapping_mul(0x100000001b3);
            site.hash_into(&mut h);
            s.trace_hash = h;
        });
        Some(TaskId::from(pick))
    }
    fn next_u64(&mut self) -> u64 {
        sim::shim_u64()
    }
}
