//! Runtime of the nucleo verification harness.
//!
//! `/repo/src/verif.rs` re-exports this crate as `crate::verif` when the repository is compiled
//! with `--cfg nucleo_verif`. With the `sim` feature (default) every atomic operation of the
//! library is a scheduling point of the deterministic simulator (`sim`, `sched`) and feeds the
//! happens-before monitor (`hb`). Without it everything is a pass-through to std.
pub mod atomic;
pub mod hb;
pub mod knobs;
#[cfg(feature = "sim")]
pub mod sched;
#[cfg(feature = "sim")]
pub mod sim;

pub use knobs::knob_capacity;

/// Named scheduling point that is also a coverage probe.
#[inline]
pub fn point(name: &'static str) {
    #[cfg(feature = "sim")]
    {
        sim::probe(name);
        sim::sched_point(sim::Site::Name(name));
    }
    #[cfg(not(feature = "sim"))]
    let _ = name;
}

/// Coverage probe only (no scheduling point).
#[inline]
pub fn probe(name: &'static str) {
    #[cfg(feature = "sim")]
    sim::probe(name);
    #[cfg(not(feature = "sim"))]
    let _ = name;
}

/// cfg-gated assertion used by `boxcar::Vec::get_unchecked`: dereferencing an unpublished entry
/// is undefined behaviour in production; in simulation it becomes a clean verdict.
#[inline]
pub fn assert_active(active: bool, index: u32) {
    if !active {
        #[cfg(feature = "sim")]
        sim::violation(
            "C06",
            "unpublished-read",
            format!("get_unchecked on unpublished index {index}"),
        );
        #[cfg(not(feature = "sim"))]
        panic!("VERIF: get_unchecked on unpublished index {index}");
    }
}
