//! Tuning knobs the simulator randomises per run ("buggify").
use std::sync::atomic::{AtomicU32, Ordering};

/// u32::MAX = no override
static CAPACITY: AtomicU32 = AtomicU32::new(u32::MAX);

/// Override of the initial capacity of every `boxcar::Vec` created from now on (`None` = shipped
/// value). Without it no bucket is ever allocated concurrently in a small run: the shipped
/// capacities 2048 / 1024 pre-allocate room for 4064 / 2016 items.
pub fn set_capacity(cap: Option<u32>) {
    CAPACITY.store(cap.unwrap_or(u32::MAX), Ordering::Relaxed)
}

pub fn knob_capacity(default: u32) -> u32 {
    match CAPACITY.load(Ordering::Relaxed) {
        u32::MAX => default,
        c => c,
    }
}
