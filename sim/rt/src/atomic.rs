//! Drop-in replacements for the std atomics used by nucleo.
//!
//! Layout is unchanged (`#[repr(transparent)]` over the real std atomic, which is what performs
//! the operation); each operation is preceded by a scheduling point labelled with its call site
//! in `/repo` and followed by happens-before bookkeeping with the ordering *the call site passed*.
#[cfg(not(feature = "sim"))]
pub use std::sync::atomic::{fence, AtomicBool, AtomicPtr, AtomicU32, AtomicU64, AtomicUsize, Ordering};

#[cfg(feature = "sim")]
pub use imp::*;

/// harness/hook-only: read a flag without a scheduling point and without a happens-before edge
#[cfg(not(feature = "sim"))]
pub fn peek_bool(a: &AtomicBool) -> bool {
    a.load(Ordering::Relaxed)
}
#[cfg(feature = "sim")]
pub fn peek_bool(a: &AtomicBool) -> bool {
    a.peek()
}

#[cfg(feature = "sim")]
mod imp {
    use crate::{hb, sim};
    use std::panic::Location;
    use std::sync::atomic as sa;
    pub use std::sync::atomic::Ordering;

    #[track_caller]
    #[inline]
    fn pt() {
        sim::sched_point(sim::Site::Loc(Location::caller()));
    }
    /// value <-> raw bits, for the store buffer of the weak-memory mode
    pub trait Bits: Copy {
        const SIZE: u8;
        fn to_bits(self) -> u64;
        fn from_bits(b: u64) -> Self;
    }
    impl Bits for bool {
        const SIZE: u8 = 1;
        fn to_bits(self) -> u64 {
            self as u64
        }
        fn from_bits(b: u64) -> Self {
            b != 0
        }
    }
    impl Bits for u32 {
        const SIZE: u8 = 4;
        fn to_bits(self) -> u64 {
            self as u64
        }
        fn from_bits(b: u64) -> Self {
            b as u32
        }
    }
    impl Bits for u64 {
        const SIZE: u8 = 8;
        fn to_bits(self) -> u64 {
            self
        }
        fn from_bits(b: u64) -> Self {
            b
        }
    }
    impl Bits for usize {
        const SIZE: u8 = 8;
        fn to_bits(self) -> u64 {
            self as u64
        }
        fn from_bits(b: u64) -> Self {
            b as usize
        }
    }
    /// before a read-modify-write / SeqCst access the thread's buffered stores become visible
    #[inline]
    fn drain_if_weak() {
        if sim::weak() {
            sim::flush_mine();
        }
    }

    #[track_caller]
    pub fn fence(o: Ordering) {
        pt();
        if matches!(o, Ordering::SeqCst) {
            drain_if_weak();
        }
        hb::fence(o);
        sa::fence(o)
    }

    macro_rules! common {
        ($name:ident, $std:ty, $t:ty) => {
            impl $name {
                pub const fn new(v: $t) -> Self {
                    Self(<$std>::new(v))
                }
                #[track_caller]
                pub fn load(&self, o: Ordering) -> $t {
                    pt();
                    if sim::weak() {
                        if matches!(o, Ordering::SeqCst) {
                            sim::flush_seq_cst();
                            if sim::has_pending_action() {
                                sim::probe("weak.seqcst_load_passes_pending_unlock");
                            }
                        }
                        if let Some(b) = sim::forwarded(self as *const _ as usize) {
                            // store forwarding: a thread sees its own buffered store
                            return <$t as Bits>::from_bits(b);
                        }
                    }
                    hb::atomic_load(self as *const _ as usize, o);
                    self.0.load(o)
                }
                #[track_caller]
                pub fn store(&self, v: $t, o: Ordering) {
                    pt();
                    hb::atomic_store(self as *const _ as usize, o);
                    if sim::weak() {
                        sim::buffer_store(self as *const _ as usize, <$t as Bits>::SIZE, v.to_bits(), matches!(o, Ordering::SeqCst));
                    } else {
                        self.0.store(v, o)
                    }
                }
                #[track_caller]
                pub fn swap(&self, v: $t, o: Ordering) -> $t {
                    pt();
                    drain_if_weak();
                    hb::atomic_rmw(self as *const _ as usize, o);
                    self.0.swap(v, o)
                }
                #[track_caller]
                pub fn compare_exchange(&self, c: $t, n: $t, s: Ordering, f: Ordering) -> Result<$t, $t> {
                    pt();
                    drain_if_weak();
                    let r = self.0.compare_exchange(c, n, s, f);
                    match r {
                        Ok(_) => hb::atomic_rmw(self as *const _ as usize, s),
                        Err(_) => hb::atomic_load(self as *const _ as usize, f),
                    };
                    r
                }
                #[track_caller]
                pub fn compare_exchange_weak(&self, c: $t, n: $t, s: Ordering, f: Ordering) -> Result<$t, $t> {
                    self.compare_exchange(c, n, s, f)
                }
                pub fn get_mut(&mut self) -> &mut $t {
                    sim::flush_range(self as *const _ as usize, 1);
                    self.0.get_mut()
                }
                pub fn into_inner(self) -> $t {
                    sim::flush_range(&self as *const _ as usize, 1);
                    self.0.into_inner()
                }
                /// harness-only: read the value without a scheduling point and without creating a
                /// happens-before edge
                pub fn peek(&self) -> $t {
                    if sim::weak() {
                        if let Some(b) = sim::forwarded(self as *const _ as usize) {
                            return <$t as Bits>::from_bits(b);
                        }
                    }
                    self.0.load(Ordering::Relaxed)
                }
            }
        };
    }
    macro_rules! int_atomic {
        ($name:ident, $std:ty, $t:ty) => {
            #[repr(transparent)]
            #[derive(Debug, Default)]
            pub struct $name($std);
            common!($name, $std, $t);
            impl $name {
                #[track_caller]
                pub fn fetch_add(&self, v: $t, o: Ordering) -> $t {
                    pt();
                    drain_if_weak();
                    hb::atomic_rmw(self as *const _ as usize, o);
                    self.0.fetch_add(v, o)
                }
                #[track_caller]
                pub fn fetch_sub(&self, v: $t, o: Ordering) -> $t {
                    pt();
                    drain_if_weak();
                    hb::atomic_rmw(self as *const _ as usize, o);
                    self.0.fetch_sub(v, o)
                }
                #[track_caller]
                pub fn fetch_max(&self, v: $t, o: Ordering) -> $t {
                    pt();
                    drain_if_weak();
                    hb::atomic_rmw(self as *const _ as usize, o);
                    self.0.fetch_max(v, o)
                }
                #[track_caller]
                pub fn fetch_min(&self, v: $t, o: Ordering) -> $t {
                    pt();
                    drain_if_weak();
                    hb::atomic_rmw(self as *const _ as usize, o);
                    self.0.fetch_min(v, o)
                }
                #[track_caller]
                pub fn fetch_or(&self, v: $t, o: Ordering) -> $t {
                    pt();
                    drain_if_weak();
                    hb::atomic_rmw(self as *const _ as usize, o);
                    self.0.fetch_or(v, o)
                }
                #[track_caller]
                pub fn fetch_and(&self, v: $t, o: Ordering) -> $t {
                    pt();
                    drain_if_weak();
                    hb::atomic_rmw(self as *const _ as usize, o);
                    self.0.fetch_and(v, o)
                }
            }
        };
    }
    int_atomic!(AtomicU32, sa::AtomicU32, u32);
    int_atomic!(AtomicU64, sa::AtomicU64, u64);
    int_atomic!(AtomicUsize, sa::AtomicUsize, usize);

    #[repr(transparent)]
    #[derive(Debug, Default)]
    pub struct AtomicBool(sa::AtomicBool);
    common!(AtomicBool, sa::AtomicBool, bool);
    impl AtomicBool {
        #[track_caller]
        pub fn fetch_or(&self, v: bool, o: Ordering) -> bool {
            pt();
                    drain_if_weak();
            hb::atomic_rmw(self as *const _ as usize, o);
            self.0.fetch_or(v, o)
        }
        #[track_caller]
        pub fn fetch_and(&self, v: bool, o: Ordering) -> bool {
            pt();
                    drain_if_weak();
            hb::atomic_rmw(self as *const _ as usize, o);
            self.0.fetch_and(v, o)
        }
    }

    #[repr(transparent)]
    #[derive(Debug)]
    pub struct AtomicPtr<T>(sa::AtomicPtr<T>);
    impl<T> AtomicPtr<T> {
        pub const fn new(p: *mut T) -> Self {
            Self(sa::AtomicPtr::new(p))
        }
        #[track_caller]
        pub fn load(&self, o: Ordering) -> *mut T {
            pt();
            if sim::weak() {
                if matches!(o, Ordering::SeqCst) {
                    sim::flush_seq_cst();
                }
                if let Some(b) = sim::forwarded(self as *const _ as usize) {
                    return b as usize as *mut T;
                }
            }
            hb::atomic_load(self as *const _ as usize, o);
            self.0.load(o)
        }
        #[track_caller]
        pub fn store(&self, p: *mut T, o: Ordering) {
            pt();
            hb::atomic_store(self as *const _ as usize, o);
            if sim::weak() {
                sim::buffer_store(self as *const _ as usize, 8, p as usize as u64, matches!(o, Ordering::SeqCst));
            } else {
                self.0.store(p, o)
            }
        }
        #[track_caller]
        pub fn swap(&self, p: *mut T, o: Ordering) -> *mut T {
            pt();
            drain_if_weak();
            hb::atomic_rmw(self as *const _ as usize, o);
            self.0.swap(p, o)
        }
        #[track_caller]
        pub fn compare_exchange(&self, c: *mut T, n: *mut T, s: Ordering, f: Ordering) -> Result<*mut T, *mut T> {
            pt();
            drain_if_weak();
            let r = self.0.compare_exchange(c, n, s, f);
            match r {
                Ok(_) => hb::atomic_rmw(self as *const _ as usize, s),
                Err(_) => hb::atomic_load(self as *const _ as usize, f),
            };
            r
        }
        #[track_caller]
        pub fn compare_exchange_weak(&self, c: *mut T, n: *mut T, s: Ordering, f: Ordering) -> Result<*mut T, *mut T> {
            self.compare_exchange(c, n, s, f)
        }
        pub fn get_mut(&mut self) -> &mut *mut T {
            sim::flush_range(self as *const _ as usize, 1);
            self.0.get_mut()
        }
        pub fn into_inner(self) -> *mut T {
            sim::flush_range(&self as *const _ as usize, 1);
            self.0.into_inner()
        }
        pub fn peek(&self) -> *mut T {
            self.0.load(Ordering::Relaxed)
        }
    }
    impl<T> Default for AtomicPtr<T> {
        fn default() -> Self {
            Self::new(std::ptr::null_mut())
        }
    }
}
