//! Parallel-iterator surface. `bridge` follows rayon's `bridge_producer_consumer`: midpoint splits
//! only, the adaptive `LengthSplitter` rule (`splits = threads`, halve per split, reset when a
//! half was stolen), leaves fold sequentially, `Consumer::full()` is honoured.
use nucleo_verif_rt::sim;
use std::sync::atomic::{AtomicBool, Ordering};

pub mod plumbing {
    use super::IndexedParallelIterator;
    use nucleo_verif_rt::sim;

    pub trait Producer: Send + Sized {
        type Item;
        type IntoIter: Iterator<Item = Self::Item> + DoubleEndedIterator + ExactSizeIterator;
        fn into_iter(self) -> Self::IntoIter;
        fn split_at(self, index: usize) -> (Self, Self);
        fn min_len(&self) -> usize {
            1
        }
        fn max_len(&self) -> usize {
            usize::MAX
        }
        fn fold_with<F: Folder<Self::Item>>(self, folder: F) -> F {
            folder.consume_iter(self.into_iter())
        }
    }
    pub trait ProducerCallback<T> {
        type Output;
        fn callback<P: Producer<Item = T>>(self, producer: P) -> Self::Output;
    }
    pub trait Folder<Item>: Sized {
        type Result;
        fn consume(self, item: Item) -> Self;
        fn consume_iter<I: IntoIterator<Item = Item>>(mut self, iter: I) -> Self {
            for item in iter {
                self = self.consume(item);
                if self.full() {
                    break;
                }
            }
            self
        }
        fn complete(self) -> Self::Result;
        fn full(&self) -> bool;
    }
    pub trait Reducer<R> {
        fn reduce(self, left: R, right: R) -> R;
    }
    pub trait Consumer<Item>: Send + Sized {
        type Folder: Folder<Item, Result = Self::Result>;
        type Reducer: Reducer<Self::Result>;
        type Result: Send;
        fn split_at(self, index: usize) -> (Self, Self, Self::Reducer);
        fn into_folder(self) -> Self::Folder;
        fn full(&self) -> bool;
    }
    pub trait UnindexedConsumer<I>: Consumer<I> {
        fn split_off_left(&self) -> Self;
        fn to_reducer(&self) -> Self::Reducer;
    }
    pub struct NoopReducer;
    impl Reducer<()> for NoopReducer {
        fn reduce(self, _l: (), _r: ()) {}
    }

    pub fn bridge<I, C>(par_iter: I, consumer: C) -> C::Result
    where
        I: IndexedParallelIterator,
        C: Consumer<I::Item>,
    {
        let len = par_iter.len();
        struct Callback<C> {
            len: usize,
            consumer: C,
        }
        impl<C, T> ProducerCallback<T> for Callback<C>
        where
            C: Consumer<T>,
        {
            type Output = C::Result;
            fn callback<P: Producer<Item = T>>(self, producer: P) -> C::Result {
                bridge_producer_consumer(self.len, producer, self.consumer)
            }
        }
        par_iter.with_producer(Callback { len, consumer })
    }

    #[derive(Clone, Copy)]
    struct Splitter {
        splits: usize,
        min: usize,
    }
    impl Splitter {
        fn try_split(&mut self, len: usize, migrated: bool) -> bool {
            if len / 2 < self.min {
                return false;
            }
            if migrated {
                self.splits = std::cmp::max(crate::current_num_threads(), self.splits / 2);
                true
            } else if self.splits > 0 {
                self.splits /= 2;
                true
            } else {
                false
            }
        }
    }

    pub fn bridge_producer_consumer<P, C>(len: usize, producer: P, consumer: C) -> C::Result
    where
        P: Producer,
        C: Consumer<P::Item>,
    {
        let threads = crate::current_num_threads();
        let min_splits = len / std::cmp::max(producer.max_len(), 1);
        let splitter = Splitter { splits: std::cmp::max(threads, min_splits), min: std::cmp::max(producer.min_len(), 1) };
        let me = if sim::active() { sim::me() } else { 0 };
        helper(len, me, splitter, producer, consumer)
    }
    fn helper<P, C>(len: usize, forker: usize, mut splitter: Splitter, producer: P, consumer: C) -> C::Result
    where
        P: Producer,
        C: Consumer<P::Item>,
    {
        let me = if sim::active() { sim::me() } else { 0 };
        let migrated = me != forker;
        if consumer.full() {
            consumer.into_folder().complete()
        } else if splitter.try_split(len, migrated) {
            sim::probe("bridge.split");
            let mid = len / 2;
            let (lp, rp) = producer.split_at(mid);
            let (lc, rc, reducer) = consumer.split_at(mid);
            let (lr, rr) = crate::join(
                move || helper(mid, me, splitter, lp, lc),
                move || helper(len - mid, me, splitter, rp, rc),
            );
            reducer.reduce(lr, rr)
        } else {
            producer.fold_with(consumer.into_folder()).complete()
        }
    }
}
use plumbing::*;

pub trait ParallelIterator: Sized + Send {
    type Item: Send;
    fn drive_unindexed<C: UnindexedConsumer<Self::Item>>(self, consumer: C) -> C::Result;
    fn opt_len(&self) -> Option<usize> {
        None
    }
    fn map<F, R>(self, f: F) -> Map<Self, F>
    where
        F: Fn(Self::Item) -> R + Sync + Send,
        R: Send,
    {
        Map { base: self, f }
    }
    fn filter<P>(self, pred: P) -> FilterMap<Self, impl Fn(Self::Item) -> Option<Self::Item> + Sync + Send>
    where
        P: Fn(&Self::Item) -> bool + Sync + Send,
    {
        FilterMap { base: self, f: move |x| if pred(&x) { Some(x) } else { None } }
    }
    fn filter_map<F, R>(self, f: F) -> FilterMap<Self, F>
    where
        F: Fn(Self::Item) -> Option<R> + Sync + Send,
        R: Send,
    {
        FilterMap { base: self, f }
    }
    fn for_each<F>(self, f: F)
    where
        F: Fn(Self::Item) + Sync + Send,
    {
        self.drive_unindexed(ForEachConsumer { f: &f })
    }
    fn count(self) -> usize {
        self.map(|_| 1usize).drive_unindexed(SumConsumer)
    }
    fn take_any_while<P>(self, pred: P) -> TakeAnyWhile<Self, P>
    where
        P: Fn(&Self::Item) -> bool + Sync + Send,
    {
        TakeAnyWhile { base: self, pred }
    }
    fn collect<C: FromParallelIterator<Self::Item>>(self) -> C {
        C::from_par_iter(self)
    }
}
pub trait IndexedParallelIterator: ParallelIterator {
    fn len(&self) -> usize;
    fn drive<C: Consumer<Self::Item>>(self, consumer: C) -> C::Result;
    fn with_producer<CB: ProducerCallback<Self::Item>>(self, callback: CB) -> CB::Output;
}
pub trait IntoParallelIterator {
    type Iter: ParallelIterator<Item = Self::Item>;
    type Item: Send;
    fn into_par_iter(self) -> Self::Iter;
}
impl<T: ParallelIterator> IntoParallelIterator for T {
    type Iter = T;
    type Item = T::Item;
    fn into_par_iter(self) -> T {
        self
    }
}
pub trait IntoParallelRefMutIterator<'data> {
    type Iter: ParallelIterator<Item = Self::Item>;
    type Item: Send + 'data;
    fn par_iter_mut(&'data mut self) -> Self::Iter;
}
impl<'data, T: Send + 'data> IntoParallelRefMutIterator<'data> for Vec<T> {
    type Iter = IterMut<'data, T>;
    type Item = &'data mut T;
    fn par_iter_mut(&'data mut self) -> IterMut<'data, T> {
        IterMut { slice: self }
    }
}
impl<'data, T: Send + 'data> IntoParallelRefMutIterator<'data> for [T] {
    type Iter = IterMut<'data, T>;
    type Item = &'data mut T;
    fn par_iter_mut(&'data mut self) -> IterMut<'data, T> {
        IterMut { slice: self }
    }
}
pub trait IntoParallelRefIterator<'data> {
    type Iter: ParallelIterator<Item = Self::Item>;
    type Item: Send + 'data;
    fn par_iter(&'data self) -> Self::Iter;
}
impl<'data, T: Sync + 'data> IntoParallelRefIterator<'data> for Vec<T> {
    type Iter = Iter<'data, T>;
    type Item = &'data T;
    fn par_iter(&'data self) -> Iter<'data, T> {
        Iter { slice: self }
    }
}
impl<'data, T: Sync + 'data> IntoParallelRefIterator<'data> for [T] {
    type Iter = Iter<'data, T>;
    type Item = &'data T;
    fn par_iter(&'data self) -> Iter<'data, T> {
        Iter { slice: self }
    }
}
pub trait ParallelExtend<T: Send> {
    fn par_extend<I: IntoParallelIterator<Item = T>>(&mut self, par_iter: I);
}
pub trait FromParallelIterator<T: Send> {
    fn from_par_iter<I: IntoParallelIterator<Item = T>>(par_iter: I) -> Self;
}
impl<T: Send> FromParallelIterator<T> for Vec<T> {
    fn from_par_iter<I: IntoParallelIterator<Item = T>>(par_iter: I) -> Self {
        let mut v = Vec::new();
        v.par_extend(par_iter);
        v
    }
}

// ---- slices
pub struct IterMut<'data, T: Send> {
    slice: &'data mut [T],
}
impl<'data, T: Send + 'data> ParallelIterator for IterMut<'data, T> {
    type Item = &'data mut T;
    fn drive_unindexed<C: UnindexedConsumer<Self::Item>>(self, consumer: C) -> C::Result {
        bridge(self, consumer)
    }
    fn opt_len(&self) -> Option<usize> {
        Some(self.slice.len())
    }
}
impl<'data, T: Send + 'data> IndexedParallelIterator for IterMut<'data, T> {
    fn len(&self) -> usize {
        self.slice.len()
    }
    fn drive<C: Consumer<Self::Item>>(self, consumer: C) -> C::Result {
        bridge(self, consumer)
    }
    fn with_producer<CB: ProducerCallback<Self::Item>>(self, callback: CB) -> CB::Output {
        callback.callback(IterMutProducer { slice: self.slice })
    }
}
struct IterMutProducer<'data, T: Send> {
    slice: &'data mut [T],
}
impl<'data, T: Send + 'data> Producer for IterMutProducer<'data, T> {
    type Item = &'data mut T;
    type IntoIter = std::slice::IterMut<'data, T>;
    fn into_iter(self) -> Self::IntoIter {
        self.slice.iter_mut()
    }
    fn split_at(self, index: usize) -> (Self, Self) {
        let (l, r) = self.slice.split_at_mut(index);
        (IterMutProducer { slice: l }, IterMutProducer { slice: r })
    }
}
pub struct Iter<'data, T: Sync> {
    slice: &'data [T],
}
impl<'data, T: Sync + 'data> ParallelIterator for Iter<'data, T> {
    type Item = &'data T;
    fn drive_unindexed<C: UnindexedConsumer<Self::Item>>(self, consumer: C) -> C::Result {
        bridge(self, consumer)
    }
    fn opt_len(&self) -> Option<usize> {
        Some(self.slice.len())
    }
}
impl<'data, T: Sync + 'data> IndexedParallelIterator for Iter<'data, T> {
    fn len(&self) -> usize {
        self.slice.len()
    }
    fn drive<C: Consumer<Self::Item>>(self, consumer: C) -> C::Result {
        bridge(self, consumer)
    }
    fn with_producer<CB: ProducerCallback<Self::Item>>(self, callback: CB) -> CB::Output {
        callback.callback(IterProducer { slice: self.slice })
    }
}
struct IterProducer<'data, T: Sync> {
    slice: &'data [T],
}
impl<'data, T: Sync + 'data> Producer for IterProducer<'data, T> {
    type Item = &'data T;
    type IntoIter = std::slice::Iter<'data, T>;
    fn into_iter(self) -> Self::IntoIter {
        self.slice.iter()
    }
    fn split_at(self, index: usize) -> (Self, Self) {
        let (l, r) = self.slice.split_at(index);
        (IterProducer { slice: l }, IterProducer { slice: r })
    }
}

// ---- Map
pub struct Map<I, F> {
    base: I,
    f: F,
}
impl<I, F, R> ParallelIterator for Map<I, F>
where
    I: ParallelIterator,
    F: Fn(I::Item) -> R + Sync + Send,
    R: Send,
{
    type Item = R;
    fn drive_unindexed<C: UnindexedConsumer<R>>(self, consumer: C) -> C::Result {
        self.base.drive_unindexed(MapConsumer { base: consumer, f: &self.f })
    }
    fn opt_len(&self) -> Option<usize> {
        self.base.opt_len()
    }
}
struct MapConsumer<'f, C, F> {
    base: C,
    f: &'f F,
}
impl<'f, T, R, C, F> Consumer<T> for MapConsumer<'f, C, F>
where
    C: Consumer<R>,
    F: Fn(T) -> R + Sync,
    R: Send,
{
    type Folder = MapFolder<'f, C::Folder, F>;
    type Reducer = C::Reducer;
    type Result = C::Result;
    fn split_at(self, index: usize) -> (Self, Self, Self::Reducer) {
        let (l, r, red) = self.base.split_at(index);
        (MapConsumer { base: l, f: self.f }, MapConsumer { base: r, f: self.f }, red)
    }
    fn into_folder(self) -> Self::Folder {
        MapFolder { base: self.base.into_folder(), f: self.f }
    }
    fn full(&self) -> bool {
        self.base.full()
    }
}
impl<'f, T, R, C, F> UnindexedConsumer<T> for MapConsumer<'f, C, F>
where
    C: UnindexedConsumer<R>,
    F: Fn(T) -> R + Sync,
    R: Send,
{
    fn split_off_left(&self) -> Self {
        MapConsumer { base: self.base.split_off_left(), f: self.f }
    }
    fn to_reducer(&self) -> Self::Reducer {
        self.base.to_reducer()
    }
}
struct MapFolder<'f, B, F> {
    base: B,
    f: &'f F,
}
impl<'f, T, R, B, F> Folder<T> for MapFolder<'f, B, F>
where
    B: Folder<R>,
    F: Fn(T) -> R,
{
    type Result = B::Result;
    fn consume(self, item: T) -> Self {
        let m = (self.f)(item);
        MapFolder { base: self.base.consume(m), f: self.f }
    }
    fn complete(self) -> B::Result {
        self.base.complete()
    }
    fn full(&self) -> bool {
        self.base.full()
    }
}

// ---- FilterMap (also serves `filter`)
pub struct FilterMap<I, F> {
    base: I,
    f: F,
}
impl<I, F, R> ParallelIterator for FilterMap<I, F>
where
    I: ParallelIterator,
    F: Fn(I::Item) -> Option<R> + Sync + Send,
    R: Send,
{
    type Item = R;
    fn drive_unindexed<C: UnindexedConsumer<R>>(self, consumer: C) -> C::Result {
        self.base.drive_unindexed(FilterMapConsumer { base: consumer, f: &self.f })
    }
}
struct FilterMapConsumer<'f, C, F> {
    base: C,
    f: &'f F,
}
impl<'f, T, R, C, F> Consumer<T> for FilterMapConsumer<'f, C, F>
where
    C: Consumer<R>,
    F: Fn(T) -> Option<R> + Sync,
    R: Send,
{
    type Folder = FilterMapFolder<'f, C::Folder, F>;
    type Reducer = C::Reducer;
    type Result = C::Result;
    fn split_at(self, index: usize) -> (Self, Self, Self::Reducer) {
        let (l, r, red) = self.base.split_at(index);
        (FilterMapConsumer { base: l, f: self.f }, FilterMapConsumer { base: r, f: self.f }, red)
    }
    fn into_folder(self) -> Self::Folder {
        FilterMapFolder { base: self.base.into_folder(), f: self.f }
    }
    fn full(&self) -> bool {
        self.base.full()
    }
}
impl<'f, T, R, C, F> UnindexedConsumer<T> for FilterMapConsumer<'f, C, F>
where
    C: UnindexedConsumer<R>,
    F: Fn(T) -> Option<R> + Sync,
    R: Send,
{
    fn split_off_left(&self) -> Self {
        FilterMapConsumer { base: self.base.split_off_left(), f: self.f }
    }
    fn to_reducer(&self) -> Self::Reducer {
        self.base.to_reducer()
    }
}
struct FilterMapFolder<'f, B, F> {
    base: B,
    f: &'f F,
}
impl<'f, T, R, B, F> Folder<T> for FilterMapFolder<'f, B, F>
where
    B: Folder<R>,
    F: Fn(T) -> Option<R>,
{
    type Result = B::Result;
    fn consume(self, item: T) -> Self {
        match (self.f)(item) {
            Some(m) => FilterMapFolder { base: self.base.consume(m), f: self.f },
            None => self,
        }
    }
    fn complete(self) -> B::Result {
        self.base.complete()
    }
    fn full(&self) -> bool {
        self.base.full()
    }
}

// ---- ForEach
struct ForEachConsumer<'f, F> {
    f: &'f F,
}
impl<'f, F, T> Consumer<T> for ForEachConsumer<'f, F>
where
    F: Fn(T) + Sync,
{
    type Folder = ForEachConsumer<'f, F>;
    type Reducer = NoopReducer;
    type Result = ();
    fn split_at(self, _i: usize) -> (Self, Self, NoopReducer) {
        (ForEachConsumer { f: self.f }, ForEachConsumer { f: self.f }, NoopReducer)
    }
    fn into_folder(self) -> Self {
        self
    }
    fn full(&self) -> bool {
        false
    }
}
impl<'f, F, T> UnindexedConsumer<T> for ForEachConsumer<'f, F>
where
    F: Fn(T) + Sync,
{
    fn split_off_left(&self) -> Self {
        ForEachConsumer { f: self.f }
    }
    fn to_reducer(&self) -> NoopReducer {
        NoopReducer
    }
}
impl<'f, F, T> Folder<T> for ForEachConsumer<'f, F>
where
    F: Fn(T) + Sync,
{
    type Result = ();
    fn consume(self, item: T) -> Self {
        (self.f)(item);
        self
    }
    fn complete(self) {}
    fn full(&self) -> bool {
        false
    }
}

// ---- Sum of usize (serves `count`)
struct SumConsumer;
struct SumFolder(usize);
struct SumReducer;
impl Reducer<usize> for SumReducer {
    fn reduce(self, l: usize, r: usize) -> usize {
        l + r
    }
}
impl Consumer<usize> for SumConsumer {
    type Folder = SumFolder;
    type Reducer = SumReducer;
    type Result = usize;
    fn split_at(self, _i: usize) -> (Self, Self, SumReducer) {
        (SumConsumer, SumConsumer, SumReducer)
    }
    fn into_folder(self) -> SumFolder {
        SumFolder(0)
    }
    fn full(&self) -> bool {
        false
    }
}
impl UnindexedConsumer<usize> for SumConsumer {
    fn split_off_left(&self) -> Self {
        SumConsumer
    }
    fn to_reducer(&self) -> SumReducer {
        SumReducer
    }
}
impl Folder<usize> for SumFolder {
    type Result = usize;
    fn consume(self, item: usize) -> Self {
        SumFolder(self.0 + item)
    }
    fn complete(self) -> usize {
        self.0
    }
    fn full(&self) -> bool {
        false
    }
}

// ---- TakeAnyWhile (same shared-flag semantics as rayon's)
pub struct TakeAnyWhile<I, P> {
    base: I,
    pred: P,
}
impl<I, P> ParallelIterator for TakeAnyWhile<I, P>
where
    I: ParallelIterator,
    P: Fn(&I::Item) -> bool + Sync + Send,
{
    type Item = I::Item;
    fn drive_unindexed<C: UnindexedConsumer<Self::Item>>(self, consumer: C) -> C::Result {
        let taking = AtomicBool::new(true);
        self.base.drive_unindexed(TawConsumer { base: consumer, pred: &self.pred, taking: &taking })
    }
}
struct TawConsumer<'p, C, P> {
    base: C,
    pred: &'p P,
    taking: &'p AtomicBool,
}
impl<'p, T, C, P> Consumer<T> for TawConsumer<'p, C, P>
where
    C: Consumer<T>,
    P: Fn(&T) -> bool + Sync,
{
    type Folder = TawFolder<'p, C::Folder, P>;
    type Reducer = C::Reducer;
    type Result = C::Result;
    fn split_at(self, index: usize) -> (Self, Self, Self::Reducer) {
        let (l, r, red) = self.base.split_at(index);
        (
            TawConsumer { base: l, pred: self.pred, taking: self.taking },
            TawConsumer { base: r, pred: self.pred, taking: self.taking },
            red,
        )
    }
    fn into_folder(self) -> Self::Folder {
        TawFolder { base: self.base.into_folder(), pred: self.pred, taking: self.taking }
    }
    fn full(&self) -> bool {
        !self.taking.load(Ordering::Relaxed) || self.base.full()
    }
}
impl<'p, T, C, P> UnindexedConsumer<T> for TawConsumer<'p, C, P>
where
    C: UnindexedConsumer<T>,
    P: Fn(&T) -> bool + Sync,
{
    fn split_off_left(&self) -> Self {
        TawConsumer { base: self.base.split_off_left(), pred: self.pred, taking: self.taking }
    }
    fn to_reducer(&self) -> Self::Reducer {
        self.base.to_reducer()
    }
}
struct TawFolder<'p, B, P> {
    base: B,
    pred: &'p P,
    taking: &'p AtomicBool,
}
impl<'p, T, B, P> Folder<T> for TawFolder<'p, B, P>
where
    B: Folder<T>,
    P: Fn(&T) -> bool,
{
    type Result = B::Result;
    fn consume(mut self, item: T) -> Self {
        if self.taking.load(Ordering::Relaxed) && (self.pred)(&item) {
            self.base = self.base.consume(item);
        } else {
            self.taking.store(false, Ordering::Relaxed);
            sim::probe("take_any_while.stopped");
        }
        self
    }
    fn complete(self) -> B::Result {
        self.base.complete()
    }
    fn full(&self) -> bool {
        !self.taking.load(Ordering::Relaxed) || self.base.full()
    }
}

// ---- collect into Vec, preserving order. Like rayon's `special_extend` the indexed path checks
// the number of produced items: every leaf must produce exactly as many items as its share of
// `opt_len()`, otherwise the real crate panics ("too many values pushed to consumer" /
// "expected N total writes, but got M").
struct ListVecConsumer {
    expect: Option<usize>,
}
struct ListVecFolder<T> {
    vec: Vec<T>,
    expect: Option<usize>,
}
struct ListReducer;
impl<T> Reducer<Vec<T>> for ListReducer {
    fn reduce(self, mut l: Vec<T>, mut r: Vec<T>) -> Vec<T> {
        l.append(&mut r);
        l
    }
}
impl<T: Send> Consumer<T> for ListVecConsumer {
    type Folder = ListVecFolder<T>;
    type Reducer = ListReducer;
    type Result = Vec<T>;
    fn split_at(self, i: usize) -> (Self, Self, ListReducer) {
        match self.expect {
            Some(n) => {
                assert!(i <= n, "out of bounds index in collect consumer split");
                (ListVecConsumer { expect: Some(i) }, ListVecConsumer { expect: Some(n - i) }, ListReducer)
            }
            None => (ListVecConsumer { expect: None }, ListVecConsumer { expect: None }, ListReducer),
        }
    }
    fn into_folder(self) -> ListVecFolder<T> {
        ListVecFolder { vec: Vec::new(), expect: self.expect }
    }
    fn full(&self) -> bool {
        false
    }
}
impl<T: Send> UnindexedConsumer<T> for ListVecConsumer {
    fn split_off_left(&self) -> Self {
        ListVecConsumer { expect: None }
    }
    fn to_reducer(&self) -> ListReducer {
        ListReducer
    }
}
impl<T> Folder<T> for ListVecFolder<T> {
    type Result = Vec<T>;
    fn consume(mut self, item: T) -> Self {
        if let Some(n) = self.expect {
            assert!(self.vec.len() < n, "too many values pushed to consumer");
        }
        self.vec.push(item);
        self
    }
    fn complete(self) -> Vec<T> {
        self.vec
    }
    fn full(&self) -> bool {
        false
    }
}
impl<T: Send> ParallelExtend<T> for Vec<T> {
    fn par_extend<I: IntoParallelIterator<Item = T>>(&mut self, par_iter: I) {
        let it = par_iter.into_par_iter();
        let expect = it.opt_len();
        let mut v = it.drive_unindexed(ListVecConsumer { expect });
        if let Some(n) = expect {
            assert!(v.len() == n, "expected {} total writes, but got {}", n, v.len());
        }
        self.append(&mut v);
    }
}
