//! Simulated `rayon`: the trait surface nucleo uses (and a little more), executed on simulator
//! threads. Which pool thread runs what, who steals which half of a `join`, and how deep `bridge`
//! splits are all decided by the simulator's scheduler.
pub mod iter;
mod pool;
pub use pool::{
    current_num_threads, current_thread_index, join, spawn, ThreadPool, ThreadPoolBuildError, ThreadPoolBuilder,
};
pub mod prelude {
    pub use crate::iter::{
        IndexedParallelIterator, IntoParallelIterator, IntoParallelRefIterator, IntoParallelRefMutIterator,
        ParallelExtend, ParallelIterator,
    };
}
pub mod slice {
    pub use crate::iter::{Iter, IterMut};
}
