use std::cell::{Cell, RefCell};
use std::collections::VecDeque;
use std::rc::Rc;

use nucleo_verif_rt::hb;
use nucleo_verif_rt::sim::{self, Role, Site};
use shuttle::thread::Thread;

type Job = Box<dyn FnOnce() + Send + 'static>;

pub(crate) struct Shared {
    jobs: RefCell<VecDeque<(u64, Job)>>,
    next_id: Cell<u64>,
    shutdown: Cell<bool>,
    idle: RefCell<Vec<Thread>>,
    pub(crate) n: usize,
}
/// `Rc` of state that is only ever touched by coroutines of one OS thread
#[derive(Clone)]
pub(crate) struct SharedRef(Rc<Shared>);
unsafe impl Send for SharedRef {}
unsafe impl Sync for SharedRef {}

thread_local! {
    /// pool of each simulated task (index = task id)
    static POOL_OF: RefCell<Vec<Option<SharedRef>>> = const { RefCell::new(Vec::new()) };
}
#[allow(dead_code)]
pub fn reset_registry() {
    POOL_OF.with(|p| p.borrow_mut().clear());
}

impl Shared {
    fn push(&self, job: Job) -> u64 {
        let id = self.next_id.get();
        self.next_id.set(id + 1);
        self.jobs.borrow_mut().push_back((id, job));
        self.wake_idle();
        id
    }
    fn wake_idle(&self) {
        let ws: Vec<Thread> = self.idle.borrow_mut().drain(..).collect();
        for t in ws {
            t.unpark();
        }
    }
    fn take(&self, id: u64) -> Option<Job> {
        let mut q = self.jobs.borrow_mut();
        let p = q.iter().position(|j| j.0 == id)?;
        Some(q.remove(p).unwrap().1)
    }
}

pub struct ThreadPool {
    shared: SharedRef,
}
#[derive(Debug)]
pub struct ThreadPoolBuildError;
impl std::fmt::Display for ThreadPoolBuildError {
    fn fmt(&self, f: &mut std::fmt::Formatter<'_>) -> std::fmt::Result {
        write!(f, "build error")
    }
}
impl std::error::Error for ThreadPoolBuildError {}

#[derive(Default)]
pub struct ThreadPoolBuilder {
    n: usize,
}
impl ThreadPoolBuilder {
    pub fn new() -> Self {
        Self { n: 0 }
    }
    pub fn num_threads(mut self, n: usize) -> Self {
        self.n = n;
        self
    }
    pub fn thread_name<F: FnMut(usize) -> String + 'static>(self, _f: F) -> Self {
        self
    }
    pub fn stack_size(self, _s: usize) -> Self {
        self
    }
    pub fn build(self) -> Result<ThreadPool, ThreadPoolBuildError> {
        let n = if self.n == 0 { 2 } else { self.n };
        let shared = SharedRef(Rc::new(Shared {
            jobs: RefCell::new(VecDeque::new()),
            next_id: Cell::new(0),
            shutdown: Cell::new(false),
            idle: RefCell::new(Vec::new()),
            n,
        }));
        for i in 0..n {
            let sh = shared.clone();
            sim::spawn_registered(Role::Pool(i as u8), move || worker_main(sh));
        }
        Ok(ThreadPool { shared })
    }
}

fn worker_main(shared: SharedRef) {
    let me = sim::me();
    POOL_OF.with(|p| {
        let mut p = p.borrow_mut();
        if p.len() <= me {
            p.resize(me + 1, None);
        }
        p[me] = Some(shared.clone());
    });
    loop {
        let job = shared.0.jobs.borrow_mut().pop_front();
        match job {
            Some((_, j)) => j(),
            None => {
                if shared.0.shutdown.get() {
                    break;
                }
                shared.0.idle.borrow_mut().push(shuttle::thread::current());
                sim::with(|s| {
                    if s.sites.len() <= me {
                        s.sites.resize(me + 1, Site::None);
                    }
                    s.sites[me] = Site::Name("pool.idle");
                });
                sim::park();
            }
        }
    }
    POOL_OF.with(|p| p.borrow_mut()[me] = None);
}

impl ThreadPool {
    /// The job runs later, on whichever pool thread the scheduler lets take it.
    pub fn spawn<F: FnOnce() + Send + 'static>(&self, f: F) {
        let tok = hb::release_token();
        self.shared.0.push(Box::new(move || {
            hb::acquire_token(&tok);
            sim::probe("pool.job");
            f()
        }));
    }
    pub fn current_num_threads(&self) -> usize {
        self.shared.0.n
    }
    /// Runs `f` on a pool thread and waits for it (harness convenience, like rayon's `install`).
    pub fn install<R: Send, F: FnOnce() -> R + Send>(&self, f: F) -> R {
        let slot: Rc<(RefCell<Option<(R, hb::VC)>>, RefCell<Option<Thread>>)> = Rc::new((RefCell::new(None), RefCell::new(None)));
        struct S<T>(T);
        unsafe impl<T> Send for S<T> {}
        let s2 = S(slot.clone());
        let tok = hb::release_token();
        let job: Box<dyn FnOnce() + Send + '_> = Box::new(move || {
            let s2 = s2;
            hb::acquire_token(&tok);
            let r = f();
            *s2.0 .0.borrow_mut() = Some((r, hb::release_token()));
            let w = s2.0 .1.borrow_mut().take();
            if let Some(w) = w {
                w.unpark();
            }
        });
        // the caller does not return before the job has run, so erasing the lifetime is sound
        let job: Job = unsafe { std::mem::transmute(job) };
        self.shared.0.push(job);
        loop {
            *slot.1.borrow_mut() = Some(shuttle::thread::current());
            if let Some((r, end)) = slot.0.borrow_mut().take() {
                hb::acquire_token(&end);
                return r;
            }
            sim::park();
        }
    }
}
impl Drop for ThreadPool {
    fn drop(&mut self) {
        // like rayon: signal termination, do not wait for the workers
        self.shared.0.shutdown.set(true);
        self.shared.0.wake_idle();
    }
}

pub fn current_thread_index() -> Option<usize> {
    if !sim::active() {
        return None;
    }
    match sim::my_role() {
        Role::Pool(i) => Some(i as usize),
        _ => None,
    }
}
pub(crate) fn current_pool() -> Option<SharedRef> {
    if !sim::active() {
        return None;
    }
    let me = sim::me();
    POOL_OF.with(|p| p.borrow().get(me).cloned().flatten())
}
pub fn current_num_threads() -> usize {
    current_pool().map_or(1, |p| p.0.n)
}
/// global-pool spawn is not something nucleo may rely on; provided so that such a change still
/// builds: runs on the current pool if any, inline otherwise
pub fn spawn<F: FnOnce() + Send + 'static>(f: F) {
    match current_pool() {
        Some(p) => {
            let tok = hb::release_token();
            p.0.push(Box::new(move || {
                hb::acquire_token(&tok);
                f()
            }));
        }
        None => f(),
    }
}

pub fn join<A, B, RA, RB>(a: A, b: B) -> (RA, RB)
where
    A: FnOnce() -> RA + Send,
    B: FnOnce() -> RB + Send,
    RA: Send,
    RB: Send,
{
    let Some(pool) = current_pool() else {
        let ra = a();
        let rb = b();
        return (ra, rb);
    };
    sim::probe("join.calls");
    // `b` is offered to the other pool threads with its lifetime erased; `join` does not return
    // before `b` has run (inline or on a thief)
    struct Slot<R> {
        result: RefCell<Option<(R, hb::VC)>>,
        waiter: RefCell<Option<Thread>>,
    }
    struct S<T>(T);
    unsafe impl<T> Send for S<T> {}
    let slot: Rc<Slot<RB>> = Rc::new(Slot { result: RefCell::new(None), waiter: RefCell::new(None) });
    let fork = hb::release_token();
    let s2 = S(slot.clone());
    let forker = sim::me();
    let job: Box<dyn FnOnce() + Send + '_> = Box::new(move || {
        let s2 = s2;
        hb::acquire_token(&fork);
        if sim::me() != forker {
            sim::probe("join.stolen");
        }
        let r = b();
        let end = hb::release_token();
        *s2.0.result.borrow_mut() = Some((r, end));
        let w = s2.0.waiter.borrow_mut().take();
        if let Some(w) = w {
            w.unpark();
        }
    });
    let job: Job = unsafe { std::mem::transmute(job) };
    let id = pool.0.push(job);
    let ra = a();
    // take `b` back if nobody stole it
    if let Some(j) = pool.0.take(id) {
        j();
    }
    loop {
        *slot.waiter.borrow_mut() = Some(shuttle::thread::current());
        if let Some((rb, end)) = slot.result.borrow_mut().take() {
            slot.waiter.borrow_mut().take();
            hb::acquire_token(&end);
            return (ra, rb);
        }
        sim::park();
    }
}
