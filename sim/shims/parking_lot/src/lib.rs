//! Simulated `parking_lot`: a mutex whose waiters park on the simulator, whose timed waits read
//! the virtual clock, and whose hand-over carries a happens-before edge.
//!
//! Reproduced behaviours the nucleo protocol depends on: `ArcMutexGuard` is `Send` and can be
//! moved into a spawned job; dropping it first unlocks (a scheduling point) and only then drops
//! its `Arc`; `try_lock_for(0)` is one attempt, optionally one more after a scheduling point
//! (parking_lot's spin phase).
use std::cell::{Cell, RefCell, UnsafeCell};
use std::mem::ManuallyDrop;
use std::ops::{Deref, DerefMut};
use std::sync::Arc;
use std::time::{Duration, Instant};

use nucleo_verif_rt::sim::{self, Site};
use nucleo_verif_rt::{hb, sim::Role};
use shuttle::thread::Thread;

pub struct Mutex<T: ?Sized> {
    locked: Cell<bool>,
    waiters: RefCell<Vec<Thread>>,
    clock: RefCell<Vec<u32>>,
    data: UnsafeCell<T>,
}
unsafe impl<T: ?Sized + Send> Send for Mutex<T> {}
unsafe impl<T: ?Sized + Send> Sync for Mutex<T> {}

pub struct MutexGuard<'a, T: ?Sized> {
    m: &'a Mutex<T>,
}
pub struct ArcMutexGuard<T: ?Sized> {
    m: ManuallyDrop<Arc<Mutex<T>>>,
    /// set where `T: 'static` is known (Drop cannot add that bound)
    weak_unlock: Option<fn(&mut ArcMutexGuard<T>)>,
}
unsafe impl<T: ?Sized + Send> Send for ArcMutexGuard<T> {}
unsafe impl<T: ?Sized + Send> Send for MutexGuard<'_, T> {}
unsafe impl<T: ?Sized + Sync> Sync for MutexGuard<'_, T> {}

impl<T> Mutex<T> {
    pub const fn new(v: T) -> Self {
        Mutex {
            locked: Cell::new(false),
            waiters: RefCell::new(Vec::new()),
            clock: RefCell::new(Vec::new()),
            data: UnsafeCell::new(v),
        }
    }
    pub fn into_inner(self) -> T {
        self.data.into_inner()
    }
}
impl<T: Default> Default for Mutex<T> {
    fn default() -> Self {
        Mutex::new(T::default())
    }
}
impl<T: ?Sized> Mutex<T> {
    fn grab(&self) -> bool {
        if sim::has_pending_action() {
            // a thread observes its own earlier unlock
            sim::flush_mine();
        }
        if self.locked.get() {
            false
        } else {
            self.locked.set(true);
            hb::acquire_token(&self.clock.borrow());
            true
        }
    }
    fn release(&self) {
        if std::thread::panicking() {
            // unlocking while unwinding: the execution is being aborted; waking the waiters would
            // switch away from a half-unwound thread
            self.locked.set(false);
            return;
        }
        sim::sched_point(Site::Name("mutex.unlock"));
        let tok = hb::release_token();
        self.do_release(tok);
    }
    fn do_release(&self, tok: Vec<u32>) {
        *self.clock.borrow_mut() = tok;
        self.locked.set(false);
        let ws: Vec<Thread> = self.waiters.borrow_mut().drain(..).collect();
        for t in ws {
            t.unpark();
        }
    }
    fn acquire(&self) {
        sim::sched_point(Site::Name("mutex.lock"));
        loop {
            if self.grab() {
                return;
            }
            if !sim::active() {
                panic!("simulated mutex contended outside a simulation");
            }
            self.waiters.borrow_mut().push(shuttle::thread::current());
            sim::park();
        }
    }
    fn acquire_for(&self, d: Duration) -> bool {
        sim::sched_point(Site::Name("mutex.try_lock_for"));
        if self.grab() {
            return true;
        }
        if !sim::active() {
            return false;
        }
        if d.is_zero() {
            // parking_lot spins briefly before giving up: optionally one more attempt
            if sim::shim_below(4) == 0 {
                sim::sched_point(Site::Name("mutex.try_lock_for.spin"));
                return self.grab();
            }
            return false;
        }
        let h = sim::add_timer(d.as_nanos() as u64);
        loop {
            // add_timer may unpark the clock thread, which is a scheduling point: register as a
            // waiter first, then re-check, then park
            self.waiters.borrow_mut().push(shuttle::thread::current());
            if self.grab() {
                sim::cancel_timer(&h);
                self.forget_waiter();
                return true;
            }
            if h.fired.get() {
                self.forget_waiter();
                sim::fault("F4.tick_timeout");
                return false;
            }
            sim::park();
        }
    }
    fn forget_waiter(&self) {
        let me = shuttle::thread::current().id();
        self.waiters.borrow_mut().retain(|t| t.id() != me);
    }
    pub fn lock(&self) -> MutexGuard<'_, T> {
        self.acquire();
        MutexGuard { m: self }
    }
    pub fn try_lock(&self) -> Option<MutexGuard<'_, T>> {
        sim::sched_point(Site::Name("mutex.try_lock"));
        self.grab().then(|| MutexGuard { m: self })
    }
    pub fn try_lock_for(&self, d: Duration) -> Option<MutexGuard<'_, T>> {
        self.acquire_for(d).then(|| MutexGuard { m: self })
    }
    pub fn try_lock_until(&self, _t: Instant) -> Option<MutexGuard<'_, T>> {
        unimplemented!("simulated parking_lot: try_lock_until reads a real clock")
    }
    pub fn is_locked(&self) -> bool {
        self.locked.get()
    }
    pub fn get_mut(&mut self) -> &mut T {
        self.data.get_mut()
    }
}
impl<T: ?Sized + 'static> Mutex<T> {
    pub fn try_lock_arc(self: &Arc<Self>) -> Option<ArcMutexGuard<T>> {
        sim::sched_point(Site::Name("mutex.try_lock"));
        self.grab().then(|| ArcMutexGuard::make(self.clone()))
    }
    pub fn lock_arc(self: &Arc<Self>) -> ArcMutexGuard<T> {
        self.acquire();
        ArcMutexGuard::make(self.clone())
    }
    pub fn try_lock_arc_for(self: &Arc<Self>, d: Duration) -> Option<ArcMutexGuard<T>> {
        self.acquire_for(d).then(|| ArcMutexGuard::make(self.clone()))
    }
}
impl<T: ?Sized> Deref for MutexGuard<'_, T> {
    type Target = T;
    fn deref(&self) -> &T {
        unsafe { &*self.m.data.get() }
    }
}
impl<T: ?Sized> DerefMut for MutexGuard<'_, T> {
    fn deref_mut(&mut self) -> &mut T {
        unsafe { &mut *self.m.data.get() }
    }
}
impl<T: ?Sized> Drop for MutexGuard<'_, T> {
    fn drop(&mut self) {
        self.m.release();
    }
}
impl<T: ?Sized> ArcMutexGuard<T> {
    pub fn mutex(s: &Self) -> &Arc<Mutex<T>> {
        &s.m
    }
}
impl<T: ?Sized + 'static> ArcMutexGuard<T> {
    fn make(m: Arc<Mutex<T>>) -> Self {
        ArcMutexGuard { m: ManuallyDrop::new(m), weak_unlock: Some(Self::buffered_unlock) }
    }
}
impl<T: ?Sized> Deref for ArcMutexGuard<T> {
    type Target = T;
    fn deref(&self) -> &T {
        unsafe { &*self.m.data.get() }
    }
}
impl<T: ?Sized> DerefMut for ArcMutexGuard<T> {
    fn deref_mut(&mut self) -> &mut T {
        unsafe { &mut *self.m.data.get() }
    }
}
impl<T: ?Sized + 'static> ArcMutexGuard<T> {
    /// weak-memory mode: the unlock is a release store like any other and may stay in the
    /// thread's store buffer for a while (later loads of the thread can pass it). The buffered
    /// action owns the Arc, so the mutex outlives it.
    fn buffered_unlock(&mut self) {
        sim::sched_point(Site::Name("mutex.unlock"));
        let tok = hb::release_token_buffered();
        let m: Arc<Mutex<T>> = unsafe { ManuallyDrop::take(&mut self.m) };
        struct SendBox<X: ?Sized>(Arc<Mutex<X>>);
        let m = SendBox(m);
        sim::buffer_action(Box::new(move || {
            let m = m;
            m.0.do_release(tok);
        }));
    }
}
impl<T: ?Sized> Drop for ArcMutexGuard<T> {
    fn drop(&mut self) {
        // like parking_lot: unlock first, then drop the Arc (possibly the last reference)
        if sim::weak() && !std::thread::panicking() {
            if let Some(f) = self.weak_unlock {
                f(self);
                return;
            }
        }
        self.m.release();
        sim::sched_point(Site::Name("mutex.guard_arc_drop"));
        // (sched_point is a no-op while unwinding)
        unsafe { ManuallyDrop::drop(&mut self.m) }
    }
}
impl<T: ?Sized + std::fmt::Debug> std::fmt::Debug for Mutex<T> {
    fn fmt(&self, f: &mut std::fmt::Formatter<'_>) -> std::fmt::Result {
        write!(f, "Mutex {{ locked: {} }}", self.locked.get())
    }
}
#[allow(dead_code)]
fn _role_unused(_: Role) {}
