//! Stub-fidelity differential, real half: executes the sequential fault-free W-nucleo scripts
//! written by `nsim seqdiff` against the crate built with the REAL rayon and parking_lot (native
//! threads, wall-clock timeouts) and compares every quiescent snapshot with what the simulation
//! observed for the same script.
use std::sync::Arc;

use nucleo::pattern::{CaseMatching, Normalization};
use nucleo::{Config, Injector, Nucleo};
use serde::Deserialize;

#[derive(Deserialize, Clone, Debug)]
#[allow(dead_code)]
enum Lie {
    Honest,
    Long(u32),
    Short(u32),
    Zero,
}
#[derive(Deserialize, Clone, Debug)]
enum WOp {
    Push { texts: Vec<String> },
    Extend { items: Vec<Vec<String>>, #[allow(dead_code)] lie: Lie, #[allow(dead_code)] panic_at: Option<u32> },
    ExtendBig { n: u32, seed: u64 },
}
#[derive(Deserialize, Clone, Debug)]
enum UiOp {
    NewInjector,
    CloneInjector { h: u32 },
    DropInjector { h: u32 },
    Spawn { w: u32, h: u32, move_handle: bool },
    Reparse { col: u32, text: String },
    ReparseOpts { col: u32, text: String, case: u8, norm: u8 },
    Tick { timeout: u64 },
    Restart { clear: bool },
    JoinWriters,
    Quiesce,
}
#[derive(Deserialize, Clone, Debug)]
struct Script {
    pool_threads: u32,
    columns: u32,
    capacity: Option<u32>,
    config: u8,
    case: u8,
    norm: u8,
    ui: Vec<UiOp>,
    writers: Vec<Vec<WOp>>,
}
#[derive(Deserialize)]
struct Line {
    index: u64,
    script: Script,
    quiescent: Vec<String>,
}

struct Item {
    texts: Vec<String>,
}

// same generator as the simulator's (rt::sim::SplitMix / gen::rstr) so that ExtendBig expands to
// the same items
struct SplitMix(u64);
impl SplitMix {
    fn next(&mut self) -> u64 {
        self.0 = self.0.wrapping_add(0x9E3779B97F4A7C15);
        let mut z = self.0;
        z = (z ^ (z >> 30)).wrapping_mul(0xBF58476D1CE4E5B9);
        z = (z ^ (z >> 27)).wrapping_mul(0x94D049BB133111EB);
        z ^ (z >> 31)
    }
    fn below(&mut self, n: u64) -> u64 {
        if n == 0 {
            0
        } else {
            self.next() % n
        }
    }
    fn derive(seed: u64, stream: u64) -> SplitMix {
        let mut s = SplitMix(seed ^ stream.wrapping_mul(0xD6E8FEB86659FD93));
        s.next();
        SplitMix(s.next())
    }
}
const ITEM_ALPHA: &[u8] = b"abAB$\\ -c/";
const NON_ASCII: &[char] = &['é', 'É', 'ß', 'ä', 'Ä', 'ñ', '漢', 'σ', 'ς'];
// (mirrors gen::rstr draw for draw, including the one string in eight with non-ASCII characters)
fn rstr(rng: &mut SplitMix, lo: u64, hi: u64) -> String {
    let n = lo + rng.below(hi - lo + 1);
    let exotic = n > 0 && rng.below(8) == 0;
    (0..n)
        .map(|_| {
            if exotic && rng.below(3) == 0 {
                NON_ASCII[rng.below(NON_ASCII.len() as u64) as usize]
            } else {
                ITEM_ALPHA[rng.below(ITEM_ALPHA.len() as u64) as usize] as char
            }
        })
        .collect()
}

fn run_writer(inj: &Injector<Item>, ops: &[WOp], cols: usize) {
    let fill = |it: &Item, c: &mut [nucleo::Utf32String]| {
        for (k, col) in c.iter_mut().enumerate() {
            *col = it.texts[k].as_str().into();
        }
    };
    let mk = |t: &Vec<String>| Item { texts: (0..cols).map(|c| t.get(c).cloned().unwrap_or_default()).collect() };
    for op in ops {
        match op {
            WOp::Push { texts } => {
                inj.push(mk(texts), fill);
            }
            WOp::Extend { items, .. } => inj.extend(items.iter().map(mk).collect::<Vec<_>>().into_iter(), fill),
            WOp::ExtendBig { n, seed } => {
                let mut r = SplitMix::derive(*seed, 3);
                let items: Vec<Item> = (0..*n).map(|_| Item { texts: (0..cols).map(|_| rstr(&mut r, 1, 3)).collect() }).collect();
                inj.extend(items.into_iter(), fill)
            }
        }
    }
}

fn run_script(sc: &Script) -> Vec<String> {
    nucleo::verif::knobs::set_capacity(sc.capacity);
    let config = match sc.config {
        1 => Config::DEFAULT.match_paths(),
        2 => {
            let mut c = Config::DEFAULT;
            c.prefer_prefix = true;
            c
        }
        _ => Config::DEFAULT,
    };
    let case_of = |c: u8| match c {
        1 => CaseMatching::Ignore,
        2 => CaseMatching::Respect,
        _ => CaseMatching::Smart,
    };
    let norm_of = |n: u8| match n {
        1 => Normalization::Never,
        _ => Normalization::Smart,
    };
    let cols = sc.columns as usize;
    let mut n: Nucleo<Item> = Nucleo::new(config, Arc::new(|| ()), Some(sc.pool_threads as usize), sc.columns);
    let mut handles: Vec<Option<Injector<Item>>> = Vec::new();
    let mut texts = vec![String::new(); cols];
    let mut opts = vec![(sc.case, sc.norm); cols];
    let mut spawned = std::collections::BTreeSet::new();
    let mut out = Vec::new();
    let pick = |handles: &Vec<Option<Injector<Item>>>, h: u32| -> Option<usize> {
        let live: Vec<usize> = handles.iter().enumerate().filter(|(_, x)| x.is_some()).map(|(i, _)| i).collect();
        if live.is_empty() {
            None
        } else {
            Some(live[h as usize % live.len()])
        }
    };
    for op in &sc.ui {
        match op {
            UiOp::NewInjector => handles.push(Some(n.injector())),
            UiOp::CloneInjector { h } => {
                if let Some(i) = pick(&handles, *h) {
                    let c = handles[i].as_ref().unwrap().clone();
                    handles.push(Some(c));
                }
            }
            UiOp::DropInjector { h } => {
                if let Some(i) = pick(&handles, *h) {
                    handles[i] = None;
                }
            }
            UiOp::Spawn { w, h, move_handle } => {
                if sc.writers.is_empty() {
                    continue;
                }
                let w = *w as usize % sc.writers.len();
                if !spawned.insert(w) {
                    continue;
                }
                let inj = match pick(&handles, *h) {
                    Some(i) if *move_handle => handles[i].take().unwrap(),
                    Some(i) => handles[i].as_ref().unwrap().clone(),
                    None => n.injector(),
                };
                run_writer(&inj, &sc.writers[w], cols);
            }
            UiOp::Reparse { .. } | UiOp::ReparseOpts { .. } => {
                let (col, text, o) = match op {
                    UiOp::Reparse { col, text } => (col, text, None),
                    UiOp::ReparseOpts { col, text, case, norm } => (col, text, Some((*case, *norm))),
                    _ => unreachable!(),
                };
                let c = *col as usize % cols;
                let new_opts = o.unwrap_or(opts[c]);
                let append = text.starts_with(&texts[c]) && new_opts == opts[c];
                n.pattern.reparse(c, text, case_of(new_opts.0), norm_of(new_opts.1), append);
                texts[c] = text.clone();
                opts[c] = new_opts;
            }
            UiOp::Tick { timeout } => {
                n.tick(*timeout);
            }
            UiOp::Restart { clear } => n.restart(*clear),
            UiOp::JoinWriters => {}
            UiOp::Quiesce => {
                let mut idle = false;
                for _ in 0..2000 {
                    if !n.tick(10).running {
                        idle = true;
                        break;
                    }
                }
                assert!(idle, "real build: never idle");
                let s = n.snapshot();
                let m: Vec<(u32, u32)> = s.matches().iter().map(|m| (m.idx, m.score)).collect();
                out.push(format!("QUIESCENT item_count={} matches={:?}", s.item_count(), m));
            }
        }
    }
    out
}

pub fn main(path: &str) -> i32 {
    let text = std::fs::read_to_string(path).expect("read");
    let (mut scripts, mut snaps, mut bad) = (0, 0, 0);
    for l in text.lines().filter(|l| !l.trim().is_empty()) {
        let line: Line = serde_json::from_str(l).expect("parse");
        let got = run_script(&line.script);
        scripts += 1;
        let want: Vec<String> = line.quiescent.iter().map(|q| q[q.find("QUIESCENT").unwrap()..].to_string()).collect();
        snaps += want.len();
        if got != want {
            bad += 1;
            println!("DIFFERENCE at script {}: simulated {:?} real {:?}", line.index, want, got);
        }
    }
    println!("seqdiff: {scripts} sequential scripts, {snaps} quiescent snapshots compared, {bad} scripts differ");
    (bad > 0) as i32
}
