//! Engine B scenarios: small fixed programs over the *unmodified* crate with the *real* rayon,
//! crossbeam and parking_lot, meant to be interpreted by Miri (`cargo +nightly miri run`). Miri's
//! seeded scheduler makes one `-Zmiri-seed` one repeatable execution; its data-race detector,
//! weak-memory emulation and UB checks are the oracle, the assertions below a second one.
//!
//!   nreal boxcar <capacity> <items>
//!   nreal nucleo <capacity> <items>
//!   nreal sort   <len> <threads>
//!   nreal eventloop <items per round> <rounds>
//!   nreal kinds <variant>
//!   nreal boxcar-faults <capacity>   (Miri with its leak check on)
mod seq;
use std::sync::atomic::Ordering as O;
use std::sync::Arc;

use nucleo::pattern::{CaseMatching, Normalization};
use nucleo::verif_facade::{par_quicksort, RawVec};
use nucleo::{Config, Nucleo};

fn boxcar(capacity: u32, items: u32) {
    let vec = Arc::new(RawVec::<(u32, Box<u32>)>::with_capacity(capacity, 1));
    let writers: Vec<_> = (0..2u32)
        .map(|w| {
            let v = vec.clone();
            std::thread::spawn(move || {
                let mut idx = Vec::new();
                for i in 0..items {
                    let val = w * 1_000_000 + i;
                    if i % 7 == 3 {
                        let batch: Vec<(u32, Box<u32>)> = (0..5).map(|k| (val * 10 + k, Box::new(val * 10 + k))).collect();
                        v.extend(batch.into_iter(), |x, cols| cols[0] = format!("{}", x.0).as_str().into());
                    } else {
                        let i = v.push((val, Box::new(val)), |x, cols| cols[0] = format!("{}", x.0).as_str().into());
                        idx.push((i, val));
                    }
                }
                for (i, val) in idx {
                    let it = v.get(i).expect("pushed item must be visible");
                    assert_eq!(it.data.0, val);
                    assert_eq!(*it.data.1, val);
                    assert_eq!(it.matcher_columns[0].to_string(), format!("{val}"));
                }
            })
        })
        .collect();
    let done = Arc::new(std::sync::atomic::AtomicBool::new(false));
    let reader = {
        let v = vec.clone();
        let done = done.clone();
        std::thread::spawn(move || {
            let mut seen = 0u64;
            let mut round = 0u32;
            // keep probing the entries around the bucket boundaries (a bucket is allocated by the
            // writer that gets close to it) while the writers are at work
            while !done.load(O::Acquire) || round < 2 {
                round += 1;
                let c = v.count();
                for base in [28u32, 92, 220] {
                    for i in base..base + 12 {
                        if let Some(it) = v.get(i) {
                            assert_eq!(it.data.0, *it.data.1);
                            assert_eq!(it.matcher_columns[0].to_string(), format!("{}", it.data.0));
                            seen += 1;
                        }
                    }
                }
                if round % 4 == 0 {
                    let start = c.saturating_sub(8);
                    let (end, it) = v.snapshot(start);
                    let n = it.map(|(_, x)| x.map_or(0, |it| (*it.data.1 == it.data.0) as u32)).count() as u32;
                    assert_eq!(n, end - start);
                }
                std::thread::yield_now();
                if round > 400 {
                    break;
                }
            }
            seen
        })
    };
    for w in writers {
        w.join().unwrap();
    }
    done.store(true, O::Release);
    let seen = reader.join().unwrap();
    let c = vec.count();
    let present = (0..c).filter(|i| vec.get(*i).is_some()).count() as u32;
    assert_eq!(present, c, "no holes without faults");
    println!("boxcar ok: count {c}, reader saw {seen} items");
}

/// Script-driven variant: the operation mix of every thread is drawn from `seed`, so different
/// argv values explore different small programs under Miri (each again under many Miri seeds).
/// Panicking fill callbacks and lying iterators on the bare vector, no threads: run under Miri *with*
/// its leak check (C11: nothing owned by an item is leaked, also not what a fill callback had stored
/// before it panicked), and with a boxed value so that a double drop would be a use after free.
fn boxcar_faults(capacity: u32) {
    use std::panic::{catch_unwind, AssertUnwindSafe};
    std::panic::set_hook(Box::new(|_| {}));
    let vec = RawVec::<(u32, Box<u32>)>::with_capacity(capacity, 2);
    let text = |x: u32| format!("column text {x} long enough to live on the heap");
    for i in 0..40u32 {
        match i % 8 {
            3 => {
                let r = catch_unwind(AssertUnwindSafe(|| {
                    vec.push((i, Box::new(i)), |x, cols| {
                        cols[0] = text(x.0).as_str().into();
                        panic!("fill {i}");
                    })
                }));
                assert!(r.is_err());
            }
            5 => {
                let batch: Vec<(u32, Box<u32>)> = (0..4).map(|k| (i * 10 + k, Box::new(k))).collect();
                let r = catch_unwind(AssertUnwindSafe(|| {
                    vec.extend(batch.into_iter(), |x, cols| {
                        cols[1] = text(x.0).as_str().into();
                        if x.0 % 10 == 2 {
                            panic!("fill in batch {i}");
                        }
                        cols[0] = text(x.0 + 1).as_str().into();
                    })
                }));
                assert!(r.is_err());
            }
            6 => {
                // reports 3, yields 5: the surplus is rejected by a panic, the first three are stored
                struct Lying(std::vec::IntoIter<(u32, Box<u32>)>);
                impl Iterator for Lying {
                    type Item = (u32, Box<u32>);
                    fn next(&mut self) -> Option<Self::Item> {
                        self.0.next()
                    }
                }
                impl ExactSizeIterator for Lying {
                    fn len(&self) -> usize {
                        3
                    }
                }
                let batch: Vec<(u32, Box<u32>)> = (0..5).map(|k| (i * 10 + k, Box::new(k))).collect();
                let r = catch_unwind(AssertUnwindSafe(|| vec.extend(Lying(batch.into_iter()), |x, cols| cols[0] = text(x.0).as_str().into())));
                assert!(r.is_err());
            }
            _ => {
                vec.push((i, Box::new(i)), |x, cols| cols[0] = text(x.0).as_str().into());
            }
        }
    }
    let mut seen = 0;
    for k in 0..vec.count() {
        if let Some(it) = vec.get(k) {
            assert_eq!(it.matcher_columns.len(), 2);
            seen += 1;
        }
    }
    drop(vec);
    println!("boxcar-faults ok: capacity {capacity}, {seen} items stored");
}

fn boxcar_script(seed: u64) {
    struct Rng(u64);
    impl Rng {
        fn next(&mut self) -> u64 {
            self.0 = self.0.wrapping_add(0x9E3779B97F4A7C15);
            let mut z = self.0;
            z = (z ^ (z >> 30)).wrapping_mul(0xBF58476D1CE4E5B9);
            z = (z ^ (z >> 27)).wrapping_mul(0x94D049BB133111EB);
            z ^ (z >> 31)
        }
        fn below(&mut self, n: u64) -> u64 {
            self.next() % n
        }
    }
    let mut rng = Rng(seed);
    let capacity = [0u32, 1, 1, 33][rng.below(4) as usize];
    let cols = 1 + rng.below(2) as u32;
    let vec = Arc::new(RawVec::<(u32, Box<u32>)>::with_capacity(capacity, cols));
    let threads: Vec<_> = (0..3u32)
        .map(|t| {
            let v = vec.clone();
            let mut r = Rng(rng.next());
            std::thread::spawn(move || {
                let mut mine: Vec<(u32, u32)> = Vec::new();
                let mut next = t * 100_000;
                let fill = |x: &(u32, Box<u32>), c: &mut [nucleo::Utf32String]| {
                    for col in c.iter_mut() {
                        *col = format!("{}", x.0).as_str().into();
                    }
                };
                for _ in 0..5 {
                    match r.below(8) {
                        0..=2 => {
                            let val = next;
                            next += 1;
                            mine.push((v.push((val, Box::new(val)), fill), val));
                        }
                        3 | 4 => {
                            let n = [1u32, 5, 30, 33][r.below(4) as usize];
                            let batch: Vec<(u32, Box<u32>)> = (0..n).map(|k| (next + k, Box::new(next + k))).collect();
                            next += n;
                            v.extend(batch.into_iter(), fill);
                        }
                        5 | 6 => {
                            let base = [0u32, 28, 60, 92][r.below(4) as usize];
                            for i in base..base + 8 {
                                if let Some(it) = v.get(i) {
                                    assert_eq!(it.data.0, *it.data.1);
                                    assert!(it.matcher_columns.iter().all(|c| c.to_string() == format!("{}", it.data.0)));
                                }
                            }
                        }
                        _ => {
                            let c = v.count();
                            let start = c.saturating_sub(6);
                            let (end, it) = v.snapshot(start);
                            assert_eq!(it.filter(|(_, x)| x.as_ref().map_or(true, |it| *it.data.1 == it.data.0)).count() as u32, end - start);
                        }
                    }
                    std::thread::yield_now();
                }
                for (i, val) in mine {
                    let it = v.get(i).expect("own push must be visible");
                    assert_eq!((it.data.0, *it.data.1), (val, val));
                }
            })
        })
        .collect();
    for t in threads {
        t.join().unwrap();
    }
    let c = vec.count();
    let mut seen = std::collections::BTreeSet::new();
    for i in 0..c {
        let it = vec.get(i).expect("no holes without faults");
        assert!(seen.insert(it.data.0), "value stored twice");
    }
    println!("boxcar-script ok: seed {seed} capacity {capacity} cols {cols} count {c}");
}

fn nucleo(capacity: u32, items: u32) {
    nucleo::verif::knobs::set_capacity(Some(capacity));
    let notified = Arc::new(std::sync::atomic::AtomicU32::new(0));
    let n2 = notified.clone();
    let mut n: Nucleo<u32> = Nucleo::new(Config::DEFAULT, Arc::new(move || { n2.fetch_add(1, O::Relaxed); }), Some(2), 1);
    let inj = n.injector();
    let w = std::thread::spawn(move || {
        for i in 0..items {
            if i % 5 == 4 {
                inj.extend((0..3u32).map(|k| i * 10 + k).collect::<Vec<_>>().into_iter(), |v, c| c[0] = format!("a{v}b").as_str().into());
            } else if i % 7 == 3 {
                // a long haystack whose needle characters lie far apart: the matcher's scoring matrix
                // is at its largest (sizes are part of what a run varies)
                inj.push(i, |v, c| c[0] = format!("a{}1{v}", "x".repeat(380 + *v as usize)).as_str().into());
            } else {
                inj.push(i, |v, c| c[0] = format!("a{v}").as_str().into());
            }
        }
    });
    n.pattern.reparse(0, "a", CaseMatching::Smart, Normalization::Smart, false);
    let mut ticks = 0;
    loop {
        let st = n.tick(1);
        ticks += 1;
        let s = n.snapshot();
        let mut prev: Option<(u32, u32)> = None;
        for m in s.matches() {
            let it = s.get_item(m.idx).expect("match must be initialised");
            assert!(it.matcher_columns[0].to_string().starts_with('a'));
            if let Some(p) = prev {
                assert!(p.0 >= m.score);
            }
            prev = Some((m.score, m.idx));
        }
        if ticks == 3 {
            n.pattern.reparse(0, "a1", CaseMatching::Smart, Normalization::Smart, true);
        }
        if w.is_finished() && !st.running && ticks > 4 {
            break;
        }
        if ticks > 400 {
            panic!("no quiescence");
        }
    }
    w.join().unwrap();
    // one more round after a restart
    n.restart(false);
    let inj = n.injector();
    inj.push(77, |v, c| c[0] = format!("a1{v}").as_str().into());
    for _ in 0..50 {
        if !n.tick(5).running {
            break;
        }
    }
    assert_eq!(n.snapshot().item_count(), 1);
    assert_eq!(n.snapshot().matched_item_count(), 1);
    println!("nucleo ok: {ticks} ticks, {} notifications", notified.load(O::Relaxed));
}

/// Every atom kind over every haystack shape: what a worker thread can reach inside the matcher
/// (ASCII and code-point representations, the scoring matrix at its largest, the greedy fallback
/// for haystacks the matrix cannot hold, needles longer than the haystack, empty columns), with a
/// writer still injecting while the first patterns are matched. Miri's UB checks are the oracle;
/// the assertions are a cheap second one (a match must contain every needle character).
fn kinds(variant: u32) {
    nucleo::verif::knobs::set_capacity(Some(1));
    let mut n: Nucleo<u32> = Nucleo::new(if variant % 2 == 0 { Config::DEFAULT } else { Config::DEFAULT.match_paths() }, Arc::new(|| {}), Some(2), 2);
    let inj = n.injector();
    let texts: Vec<String> = vec![
        "ab".into(),
        "xaxbx".into(),
        "AB".into(),
        " ab ".into(),
        "".into(),
        "a".into(),
        format!("a{}b", "x".repeat(420)),
        format!("{}ab", "y".repeat(300)),
        format!("ab{}", "z".repeat(300)),
        "éab".into(),
        "äb".into(),
        "a漢b".into(),
        format!("é{}a{}b", "x".repeat(200), "x".repeat(380)),
        format!("{}ab", "ß".repeat(350)),
        "src/lib/ab.rs".into(),
        "ÄB".into(),
        // too long for the scoring matrix: the greedy fallback
        format!("a{}b", "q".repeat(2300)),
        format!("{}abcdefghijklmnopqrstuvwxyz{}abcdefghijklmnopqrstuvwxyz", "-".repeat(1000), "/".repeat(1100)),
        "b".into(),
    ];
    let total = texts.len() as u32;
    let t2 = texts.clone();
    let w = std::thread::spawn(move || {
        for (i, t) in t2.iter().enumerate() {
            if i % 4 == 3 {
                inj.extend(std::iter::once(i as u32), |_, c| {
                    c[0] = t.as_str().into();
                    c[1] = "ab".into();
                });
            } else {
                inj.push(i as u32, |_, c| c[0] = t.as_str().into());
            }
        }
    });
    let patterns: [(&str, CaseMatching, Normalization); 14] = [
        ("ab", CaseMatching::Smart, Normalization::Smart),
        ("'ab", CaseMatching::Ignore, Normalization::Smart),
        ("^ab", CaseMatching::Smart, Normalization::Smart),
        ("ab$", CaseMatching::Smart, Normalization::Smart),
        ("^ab$", CaseMatching::Ignore, Normalization::Never),
        ("!ab", CaseMatching::Smart, Normalization::Smart),
        ("AB", CaseMatching::Smart, Normalization::Smart),
        ("äb", CaseMatching::Respect, Normalization::Never),
        ("'äb", CaseMatching::Ignore, Normalization::Smart),
        ("a b", CaseMatching::Smart, Normalization::Smart),
        ("abcdefghijklmnopqrstuvwxyzabcdefghijklmnopqrstuvwxyz", CaseMatching::Smart, Normalization::Smart),
        ("b", CaseMatching::Smart, Normalization::Smart),
        ("'b", CaseMatching::Smart, Normalization::Smart),
        ("", CaseMatching::Smart, Normalization::Smart),
    ];
    let mut joined = false;
    for (k, (p, case, norm)) in patterns.iter().enumerate() {
        n.pattern.reparse(0, p, *case, *norm, false);
        if k == 3 && !joined {
            w.join_ref();
            joined = true;
        }
        let mut ticks = 0;
        while n.tick(10).running || (k >= 3 && n.snapshot().item_count() < total) {
            ticks += 1;
            assert!(ticks < 50_000, "no quiescence for pattern {p:?}");
        }
        let s = n.snapshot();
        for m in s.matches() {
            let it = s.get_item(m.idx).expect("match must be initialised");
            let hay = it.matcher_columns[0].to_string();
            if !p.starts_with('!') && *norm == Normalization::Never && *case == CaseMatching::Respect {
                for ch in p.chars().filter(|c| c.is_alphanumeric()) {
                    assert!(hay.contains(ch), "pattern {p:?} matched {hay:?}");
                }
            }
        }
        assert!(s.get_item(u32::MAX).is_none());
        println!("kinds: pattern {p:?}: {} of {} items match", s.matched_item_count(), s.item_count());
    }
    println!("kinds ok: variant {variant}");
}
trait JoinRef {
    fn join_ref(&self);
}
impl JoinRef for std::thread::JoinHandle<()> {
    fn join_ref(&self) {
        while !self.is_finished() {
            std::thread::yield_now();
        }
    }
}

/// An event loop that only ticks after its own edit or when notified (property C13). A tick that
/// reported `running` and is not followed by a notification within 5 (virtual) seconds is a lost
/// wake-up. Rounds keep the worker busy while ticks with timeout 0 race with its completion.
fn eventloop(items: u32, rounds: u32) {
    let count = Arc::new(std::sync::atomic::AtomicU32::new(0));
    let ui = std::thread::current();
    let (c2, ui2) = (count.clone(), ui.clone());
    let mut n: Nucleo<u32> = Nucleo::new(
        Config::DEFAULT,
        Arc::new(move || {
            c2.fetch_add(1, O::SeqCst);
            ui2.unpark();
        }),
        Some(1),
        1,
    );
    let inj = n.injector();
    let mut waits = 0u32;
    let mut total = 0u32;
    // get the initial (cancelled) tick out of the way
    while n.tick(10).running {}
    for r in 0..rounds {
        // a push notifies: the event loop ticks; the tick starts a run and reports running
        let mut seen = count.load(O::SeqCst);
        for i in 0..items {
            inj.push(r * 1000 + i, |v, c| c[0] = format!("a{v}").as_str().into());
            total += 1;
        }
        assert!(count.load(O::SeqCst) > seen, "push must notify");
        seen = count.load(O::SeqCst);
        let mut st = n.tick(0);
        // vary the phase between the worker and the next tick a little
        for _ in 0..(r % 8) {
            std::thread::yield_now();
        }
        // another push arrives while the run is (about to be) finished: its notification makes
        // the loop tick again, racing with the completion of the run
        inj.push(r * 1000 + 999, |v, c| c[0] = format!("a{v}").as_str().into());
        total += 1;
        let mut guard = 0;
        loop {
            if st.running || count.load(O::SeqCst) != seen {
                if count.load(O::SeqCst) == seen {
                    // `running` was reported and nothing has notified since: wait for it
                    let deadline = std::time::Instant::now() + std::time::Duration::from_secs(5);
                    while count.load(O::SeqCst) == seen {
                        let now = std::time::Instant::now();
                        if now >= deadline {
                            let probe = n.tick(0);
                            panic!("LOST WAKE-UP in round {r}: tick reported running, no notification for 5 s; an unprompted tick now returns {probe:?}");
                        }
                        std::thread::park_timeout(deadline - now);
                    }
                    waits += 1;
                }
                seen = count.load(O::SeqCst);
                st = n.tick(0);
            } else {
                break;
            }
            guard += 1;
            assert!(guard < 10_000, "event loop does not converge");
        }
        assert_eq!(n.snapshot().item_count(), total);
    }
    println!("eventloop ok: {rounds} rounds, {waits} waits, {} notifications", count.load(O::SeqCst));
}

fn sort(len: u32, threads: usize) {
    let pool = rayon::ThreadPoolBuilder::new().num_threads(threads).build().unwrap();
    let mut x = 12345u64;
    let mut v: Vec<(u32, u32)> = (0..len)
        .map(|i| {
            x ^= x << 13;
            x ^= x >> 7;
            x ^= x << 17;
            ((x % 1000) as u32, i)
        })
        .collect();
    let flag = Arc::new(nucleo::verif::atomic::AtomicBool::new(false));
    let f2 = flag.clone();
    let c = std::thread::spawn(move || {
        for _ in 0..3 {
            std::thread::yield_now();
        }
        f2.store(true, O::Relaxed);
    });
    let cancelled = pool.install(|| par_quicksort(&mut v, |a, b| a < b, &flag));
    c.join().unwrap();
    let mut seen = vec![false; len as usize];
    for (_, i) in &v {
        assert!(!std::mem::replace(&mut seen[*i as usize], true), "not a permutation");
    }
    if !cancelled {
        assert!(v.windows(2).all(|w| w[0] <= w[1]), "not sorted");
    }
    println!("sort ok: cancelled={cancelled}");
}

fn main() {
    let a: Vec<String> = std::env::args().collect();
    let num = |i: usize, d: u32| a.get(i).and_then(|x| x.parse().ok()).unwrap_or(d);
    match a.get(1).map(|s| s.as_str()) {
        Some("boxcar") => boxcar(num(2, 1), num(3, 40)),
        Some("boxcar-script") => boxcar_script(num(2, 1) as u64),
        Some("nucleo") => nucleo(num(2, 1), num(3, 30)),
        Some("sort") => sort(num(2, 4100), num(3, 2) as usize),
        Some("seqdiff") => std::process::exit(seq::main(a.get(2).expect("seqdiff FILE"))),
        Some("eventloop") => eventloop(num(2, 1), num(3, 40)),
        Some("kinds") => kinds(num(2, 0)),
        Some("boxcar-faults") => boxcar_faults(num(2, 1)),
        _ => {
            eprintln!("usage: nreal boxcar|nucleo|sort ...");
            std::process::exit(2)
        }
    }
}
