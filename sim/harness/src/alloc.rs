//! Allocator seam: the simulator's global allocator.
//!
//! * fresh blocks are filled with 0xA5 and freed blocks with 0x5A, so that reads of
//!   uninitialised or freed library memory show up as canary mismatches instead of plausible data;
//! * allocations made while `TRACK` is on (the harness turns it on while a fill callback builds
//!   matcher-column strings) are recorded per execution; on free they are quarantined (not
//!   returned to the system) so that a second free of the same block is detected; blocks still
//!   live at the end of the execution are leaks.
//! Allocation *failure* is not injected: it aborts the process and no listed property speaks
//! about it.
use std::alloc::{GlobalAlloc, Layout, System};
use std::cell::{Cell, UnsafeCell};

pub struct SimAlloc;

const SLOTS: usize = 1 << 14;
#[derive(Clone, Copy)]
struct Slot {
    ptr: usize,
    size: usize,
    align: usize,
    state: u8, // 0 empty, 1 live, 2 quarantined
}
struct Table {
    slots: UnsafeCell<[Slot; SLOTS]>,
    used: Cell<usize>,
    live: Cell<usize>,
    double_free: Cell<usize>,
    tracked_total: Cell<usize>,
}
thread_local! {
    static TRACK: Cell<bool> = const { Cell::new(false) };
    static POISON: Cell<bool> = const { Cell::new(false) };
    static TABLE: Table = const { Table {
        slots: UnsafeCell::new([Slot { ptr: 0, size: 0, align: 0, state: 0 }; SLOTS]),
        used: Cell::new(0), live: Cell::new(0), double_free: Cell::new(0), tracked_total: Cell::new(0),
    } };
}

fn find(t: &Table, ptr: usize) -> Option<usize> {
    if t.used.get() == 0 {
        return None;
    }
    let slots = unsafe { &*t.slots.get() };
    let mut i = (ptr >> 4).wrapping_mul(0x9E3779B97F4A7C15) >> 50 & (SLOTS - 1);
    for _ in 0..SLOTS {
        match slots[i].state {
            0 => return None,
            _ if slots[i].ptr == ptr => return Some(i),
            _ => i = (i + 1) & (SLOTS - 1),
        }
    }
    None
}
fn insert(t: &Table, ptr: usize, size: usize, align: usize) {
    if t.used.get() >= SLOTS / 2 {
        return; // table full: stop tracking rather than lie
    }
    let slots = unsafe { &mut *t.slots.get() };
    let mut i = (ptr >> 4).wrapping_mul(0x9E3779B97F4A7C15) >> 50 & (SLOTS - 1);
    loop {
        if slots[i].state == 0 {
            slots[i] = Slot { ptr, size, align, state: 1 };
            t.used.set(t.used.get() + 1);
            t.live.set(t.live.get() + 1);
            t.tracked_total.set(t.tracked_total.get() + 1);
            return;
        }
        i = (i + 1) & (SLOTS - 1);
    }
}

unsafe impl GlobalAlloc for SimAlloc {
    unsafe fn alloc(&self, layout: Layout) -> *mut u8 {
        let p = System.alloc(layout);
        if p.is_null() {
            return p;
        }
        // thread-locals may be gone during thread teardown
        let _ = POISON.try_with(|on| {
            if on.get() {
                std::ptr::write_bytes(p, 0xA5, layout.size());
            }
        });
        let _ = TRACK.try_with(|tr| {
            if tr.get() {
                let _ = TABLE.try_with(|t| insert(t, p as usize, layout.size(), layout.align()));
            }
        });
        p
    }
    unsafe fn dealloc(&self, p: *mut u8, layout: Layout) {
        let mut quarantined = false;
        let _ = TABLE.try_with(|t| {
            if let Some(i) = find(t, p as usize) {
                let slots = &mut *t.slots.get();
                if slots[i].state == 1 {
                    slots[i].state = 2;
                    t.live.set(t.live.get() - 1);
                } else {
                    t.double_free.set(t.double_free.get() + 1);
                }
                quarantined = true;
            }
        });
        let _ = POISON.try_with(|on| {
            if on.get() {
                std::ptr::write_bytes(p, 0x5A, layout.size());
            }
        });
        if !quarantined {
            System.dealloc(p, layout)
        }
    }
    unsafe fn realloc(&self, p: *mut u8, layout: Layout, new_size: usize) -> *mut u8 {
        // route through alloc/dealloc so tracking and poisoning see every block
        let new_layout = Layout::from_size_align_unchecked(new_size, layout.align());
        let q = self.alloc(new_layout);
        if !q.is_null() {
            std::ptr::copy_nonoverlapping(p, q, layout.size().min(new_size));
            self.dealloc(p, layout);
        }
        q
    }
}

/// Turn tracking on for the duration of `f` (allocations made inside are column strings).
pub fn tracked<R>(f: impl FnOnce() -> R) -> R {
    let old = TRACK.with(|t| t.replace(true));
    struct Reset(bool);
    impl Drop for Reset {
        fn drop(&mut self) {
            TRACK.with(|t| t.set(self.0));
        }
    }
    let _r = Reset(old);
    f()
}
pub fn set_poison(on: bool) {
    POISON.with(|p| p.set(on));
}
#[derive(Debug, Default, Clone, Copy)]
pub struct AllocReport {
    pub tracked: usize,
    pub leaked: usize,
    pub double_free: usize,
}
/// End of an execution: report, release the quarantine, clear the table.
pub fn end_execution() -> AllocReport {
    TRACK.with(|t| t.set(false));
    TABLE.with(|t| {
        let rep = AllocReport { tracked: t.tracked_total.get(), leaked: t.live.get(), double_free: t.double_free.get() };
        let slots = unsafe { &mut *t.slots.get() };
        if t.used.get() > 0 {
            for s in slots.iter_mut() {
                if s.state == 2 {
                    unsafe { System.dealloc(s.ptr as *mut u8, Layout::from_size_align_unchecked(s.size, s.align)) };
                }
                s.state = 0;
            }
        }
        t.used.set(0);
        t.live.set(0);
        t.double_free.set(0);
        t.tracked_total.set(0);
        rep
    })
}
