//! W-boxcar: the lock-free append-only vector on its own (through the cfg-gated facade), at the
//! granularity of its atomic operations. Decides C08 (linearizable append-only sequence), and
//! contributes to C09 (happens-before monitor on bucket allocation races) and C11 (drop ledger
//! with bucket-geometry-aware fault plans).
use std::cell::RefCell;
use std::collections::BTreeMap;
use std::sync::Arc;

use nucleo::verif_facade::RawVec;
use nucleo::Utf32String;
use nucleo_verif_rt::sim::{self, Role, SplitMix};
use rayon::prelude::*;
use serde::{Deserialize, Serialize};

use crate::exec::{Job, Outcome, SchedCfg};
use crate::gen::pick;
use crate::ledger::{self, Payload};
use crate::world_nucleo::Lie;
use crate::{alloc, world_nucleo};

#[derive(Serialize, Deserialize, Clone, Debug, PartialEq)]
pub enum BOp {
    Push { burn: u32 },
    PushPanic,
    Extend { n: u32, lie: Lie, panic_at: Option<u32>, burn: u32 },
    Get { idx: u32 },
    /// look up the index returned by this thread's most recent push (safe and unchecked accessor)
    GetOwn,
    Count,
    Snapshot { start: u32 },
    ParSnapshot { start: u32 },
    Burn { k: u32 },
}

#[derive(Serialize, Deserialize, Clone, Debug)]
pub struct BoxcarScript {
    /// index-space exhaustion variant: before the threads start, one batch whose iterator reports
    /// this length (it reserves indices without memory and is rejected); every later push and
    /// extend must be rejected too and count() must stay put
    #[serde(default)]
    pub overflow: Option<u32>,
    pub capacity: u32,
    pub columns: u32,
    pub pool_threads: u32,
    pub threads: Vec<Vec<BOp>>,
    pub sched: SchedCfg,
}
impl BoxcarScript {
    pub fn summary(&self) -> String {
        format!(
            "overflow={:?} cap={} cols={} threads={} ops={} strategy={}",
            self.overflow,
            self.capacity,
            self.columns,
            self.threads.len(),
            self.threads.iter().map(|t| t.len()).sum::<usize>(),
            self.sched.strategy_name()
        )
    }
}

#[derive(Debug, Clone)]
#[allow(dead_code)]
enum Ev {
    Push { inv: u64, ret: u64, uid: u32, idx: Option<u32> },
    Extend { inv: u64, ret: u64, uids: Vec<u32>, reported: u32, filled: u32, ok: bool },
    Get { inv: u64, ret: u64, idx: u32, got: Option<u32> },
    Count { inv: u64, ret: u64, value: u32 },
    Snapshot { inv: u64, ret: u64, start: u32, end: u32, items: Vec<(u32, Option<u32>)>, par: bool },
}
#[derive(Default)]
struct Hist {
    evs: Vec<Ev>,
    next_uid: u32,
}
thread_local! { static HIST: RefCell<Hist> = RefCell::new(Hist::default()); }
fn hist<R>(f: impl FnOnce(&mut Hist) -> R) -> R {
    HIST.with(|h| f(&mut h.borrow_mut()))
}

fn texts_for(uid: u32, cols: u32) -> Vec<Box<str>> {
    (0..cols).map(|c| format!("v{uid}c{c}").into_boxed_str()).collect()
}
fn new_payload(cols: u32) -> Payload {
    let uid = hist(|h| {
        let u = h.next_uid;
        h.next_uid += 1;
        u
    });
    Payload::new(uid, 0, texts_for(uid, cols))
}

fn soft(class: &str, msg: String) {
    sim::soft_violation("C08", class, msg)
}

/// validate an item reference: canary, ledger, columns == f(value); returns the uid
fn validate(it: &nucleo::Item<'_, Payload>, what: &str) -> u32 {
    if let Err(e) = it.data.validate() {
        sim::violation("C08", "bad-item", format!("{what}: {e}"));
    }
    let uid = it.data.uid;
    for (c, col) in it.matcher_columns.iter().enumerate() {
        let want = format!("v{uid}c{c}");
        if col.to_string() != want {
            sim::violation("C08", "bad-columns", format!("{what}: item uid={uid} column {c} is {:?}, its fill callback wrote {want:?}", col.to_string()));
        }
    }
    uid
}

fn fill(item: &Payload, cols: &mut [Utf32String], burn: u32, panic_here: bool) {
    nucleo_verif_rt::point("fill.begin");
    for _ in 0..burn {
        nucleo_verif_rt::point("fill.burn");
    }
    if burn > 0 {
        sim::fault("F1.writer_held_in_flight");
    }
    // user code writes into library-owned memory: report it to the happens-before monitor
    nucleo_verif_rt::hb::plain_write(cols.as_ptr() as usize, "fill callback (writes the matcher columns)");
    let n = cols.len();
    for (c, col) in cols.iter_mut().enumerate() {
        if panic_here && c == n / 2 {
            sim::fault("F2.fill_panic");
            panic!("injected fill panic");
        }
        let t: &str = &item.texts[c];
        *col = alloc::tracked(|| Utf32String::from(t));
    }
    nucleo_verif_rt::hb::plain_write(cols.as_ptr() as usize, "fill callback (wrote the matcher columns)");
    ledger::mark_stored(item.uid);
    nucleo_verif_rt::point("fill.end");
}

struct LyingIter {
    items: std::vec::IntoIter<Payload>,
    reported: usize,
}
impl Iterator for LyingIter {
    type Item = Payload;
    fn next(&mut self) -> Option<Payload> {
        self.items.next()
    }
}
impl ExactSizeIterator for LyingIter {
    fn len(&self) -> usize {
        self.reported
    }
}

fn thread_main(vec: Arc<RawVec<Payload>>, ops: Vec<BOp>, pool: Option<Arc<rayon::ThreadPool>>, overflow: bool) {
    let cols = vec.columns();
    let mut last_own: Option<(u32, u32)> = None;
    for op in &ops {
        match op {
            BOp::Push { burn } => {
                let p = new_payload(cols);
                let uid = p.uid;
                let inv = sim::seq();
                let r = world_nucleo::expected_panic(|| vec.push(p, |it, c| fill(it, c, *burn, false)));
                let ret = sim::seq();
                match r {
                    Ok(idx) => {
                        hist(|h| h.evs.push(Ev::Push { inv, ret, uid, idx: Some(idx) }));
                        last_own = Some((idx, uid));
                    }
                    Err(m) if overflow => {
                        sim::probe("boxcar.push_rejected_full");
                        let _ = m;
                        hist(|h| h.evs.push(Ev::Push { inv, ret, uid, idx: None }));
                    }
                    Err(m) => sim::violation("*", "crash", format!("push of uid {uid} panicked: {m}")),
                }
            }
            BOp::PushPanic => {
                let p = new_payload(cols);
                let uid = p.uid;
                let inv = sim::seq();
                let r = world_nucleo::expected_panic(|| vec.push(p, |it, c| fill(it, c, 0, true)));
                let ret = sim::seq();
                if r.is_ok() {
                    sim::violation("C11", "panic-swallowed", format!("push of uid {uid} returned although its fill callback panicked"));
                }
                hist(|h| h.evs.push(Ev::Push { inv, ret, uid, idx: None }));
            }
            BOp::Extend { n, lie, panic_at, burn } => {
                let n = *n as usize;
                let payloads: Vec<Payload> = (0..n).map(|_| new_payload(cols)).collect();
                let uids: Vec<u32> = payloads.iter().map(|p| p.uid).collect();
                let reported = match lie {
                    Lie::Honest => n,
                    Lie::Long(k) => n + *k as usize,
                    Lie::Short(k) => n.saturating_sub(*k as usize),
                    Lie::Zero => 0,
                };
                if reported != n {
                    sim::fault("F3.lying_iterator");
                }
                let must_panic = reported < n || panic_at.is_some_and(|k| (k as usize) < n.min(reported));
                let it = LyingIter { items: payloads.into_iter(), reported };
                let k = std::cell::Cell::new(0u32);
                let filled = std::cell::Cell::new(0u32);
                let inv = sim::seq();
                let r = world_nucleo::expected_panic(|| {
                    vec.extend(it, |item, c| {
                        let i = k.get();
                        k.set(i + 1);
                        fill(item, c, if i == 0 { *burn } else { 0 }, *panic_at == Some(i));
                        filled.set(filled.get() + 1);
                    })
                });
                let ret = sim::seq();
                match &r {
                    _ if overflow => {}
                    Ok(()) if must_panic => {
                        sim::violation("C08", "lying-iterator-accepted", format!("extend with {n} items reporting {reported} (panic_at {panic_at:?}) returned normally"))
                    }
                    Err(m) if !must_panic => sim::violation("*", "crash", format!("extend of {n} items reporting {reported} panicked: {m}")),
                    _ => {}
                }
                hist(|h| h.evs.push(Ev::Extend { inv, ret, uids, reported: reported as u32, filled: filled.get(), ok: r.is_ok() }));
            }
            BOp::Get { idx } => {
                let inv = sim::seq();
                // a lookup answers "nothing" or an item for every index, also for those no push can
                // ever be assigned (the top 32 values of u32)
                let got = match crate::world_nucleo::expected_panic(|| vec.get(*idx).map(|it| validate(&it, "get"))) {
                    Ok(g) => g,
                    Err(m) => sim::violation("C08", "lookup-panic", format!("get({idx}) panicked: {m}")),
                };
                let ret = sim::seq();
                hist(|h| h.evs.push(Ev::Get { inv, ret, idx: *idx, got }));
            }
            BOp::GetOwn => {
                if let Some((idx, uid)) = last_own {
                    let inv = sim::seq();
                    let got = vec.get(idx).map(|it| validate(&it, "get(own)"));
                    let ret = sim::seq();
                    hist(|h| h.evs.push(Ev::Get { inv, ret, idx, got }));
                    // the documented precondition of the unchecked accessor holds: push returned idx
                    let it = unsafe { vec.get_unchecked(idx) };
                    let u2 = validate(&it, "get_unchecked(own)");
                    if u2 != uid {
                        soft("moved", format!("get_unchecked({idx}) returned uid {u2}, push returned that index for uid {uid}"));
                    }
                }
            }
            BOp::Count => {
                let inv = sim::seq();
                let value = vec.count();
                let ret = sim::seq();
                hist(|h| h.evs.push(Ev::Count { inv, ret, value }));
            }
            BOp::Snapshot { start } => {
                let inv = sim::seq();
                let c = vec.count();
                let start = (*start).min(c);
                let (end, it) = vec.snapshot(start);
                let items: Vec<(u32, Option<u32>)> = it.map(|(i, x)| (i, x.map(|it| validate(&it, "snapshot")))).collect();
                let ret = sim::seq();
                hist(|h| h.evs.push(Ev::Snapshot { inv, ret, start, end, items, par: false }));
            }
            BOp::ParSnapshot { start } => {
                let Some(pool) = &pool else { continue };
                let inv = sim::seq();
                let c = vec.count();
                let start = (*start).min(c);
                let v2 = vec.clone();
                let (end, items) = pool.install(move || {
                    let (end, it) = v2.par_snapshot(start);
                    let items: Vec<(u32, Option<u32>)> = it.map(|(i, x)| (i, x.map(|it| validate(&it, "par_snapshot")))).collect();
                    (end, items)
                });
                let ret = sim::seq();
                hist(|h| h.evs.push(Ev::Snapshot { inv, ret, start, end, items, par: true }));
            }
            BOp::Burn { k } => {
                for _ in 0..*k {
                    nucleo_verif_rt::point("thread.burn");
                }
            }
        }
    }
}

/// C08 over the recorded history + the quiescent content.
fn check_history(vec: &RawVec<Payload>) {
    let _q = sim::quiet();
    sim::probe("oracle.c08");
    let evs = hist(|h| std::mem::take(&mut h.evs));
    let count = vec.count();
    // quiescent content
    let mut content: Vec<Option<u32>> = Vec::with_capacity(count as usize);
    let mut where_is: BTreeMap<u32, u32> = BTreeMap::new();
    for i in 0..count {
        let got = vec.get(i).map(|it| validate(&it, "final scan"));
        if let Some(u) = got {
            if let Some(j) = where_is.insert(u, i) {
                soft("duplicate", format!("uid {u} is stored at index {j} and at index {i}"));
            }
        }
        content.push(got);
    }
    if vec.get(count).is_some() || vec.get(count + 31).is_some() {
        soft("phantom", format!("an index >= count()={count} holds an item"));
    }
    // reservation accounting
    let mut reserved = 0u32;
    let mut holes_expected = 0u32;
    for e in &evs {
        match e {
            Ev::Push { uid, idx, .. } => {
                reserved += 1;
                match idx {
                    Some(i) => {
                        if content.get(*i as usize).copied().flatten() != Some(*uid) {
                            soft("lost", format!("push of uid {uid} returned index {i} but that index holds {:?} at quiescence", content.get(*i as usize)));
                        }
                    }
                    None => holes_expected += 1,
                }
            }
            Ev::Extend { uids, reported, filled, ok, .. } => {
                reserved += reported;
                let published = *filled.min(reported);
                holes_expected += reported - published;
                // the published prefix of the batch occupies a contiguous ascending range
                let mut prev: Option<u32> = None;
                for (k, u) in uids.iter().enumerate().take(published as usize) {
                    match where_is.get(u) {
                        None => soft("lost", format!("item #{k} (uid {u}) of a batch (reported {reported}, ok {ok}) is not in the vector at quiescence")),
                        Some(i) => {
                            if let Some(p) = prev {
                                if *i != p + 1 {
                                    soft("batch-not-contiguous", format!("batch item uid {u} is at index {i}, its predecessor at {p}"));
                                }
                            }
                            prev = Some(*i);
                        }
                    }
                }
                for u in uids.iter().skip(published as usize) {
                    if let Some(i) = where_is.get(u) {
                        soft("phantom", format!("uid {u} was never filled completely but is stored at index {i}"));
                    }
                }
            }
            _ => {}
        }
    }
    if count != reserved {
        soft("count", format!("count() = {count} at quiescence, {reserved} indices were reserved"));
    }
    let holes = content.iter().filter(|c| c.is_none()).count() as u32;
    if holes != holes_expected {
        soft("holes", format!("{holes} empty indices below count(), the fault plan accounts for {holes_expected}"));
    }
    // real-time order
    let pushes: Vec<(u64, u32, u32)> = evs
        .iter()
        .filter_map(|e| match e {
            Ev::Push { ret, uid, idx: Some(i), .. } => Some((*ret, *i, *uid)),
            _ => None,
        })
        .collect();
    let completed_before = |t: u64| -> u32 {
        evs.iter()
            .map(|e| match e {
                Ev::Push { ret, idx: Some(_), .. } if *ret < t => 1,
                Ev::Extend { ret, filled, reported, ok: true, .. } if *ret < t => *filled.min(reported),
                _ => 0,
            })
            .sum()
    };
    let mut seen_some: BTreeMap<u32, (u64, u32)> = BTreeMap::new(); // idx -> (earliest ret of a Some, uid)
    for e in &evs {
        if let Ev::Get { ret, idx, got: Some(u), .. } = e {
            let s = seen_some.entry(*idx).or_insert((*ret, *u));
            if *ret < s.0 {
                *s = (*ret, *u);
            }
        }
    }
    for e in &evs {
        match e {
            Ev::Get { inv, idx, got, .. } => {
                let fin = content.get(*idx as usize).copied().flatten();
                match got {
                    Some(u) => {
                        if fin != Some(*u) {
                            soft("moved", format!("get({idx}) returned uid {u} but the index holds {fin:?} at quiescence"));
                        }
                    }
                    None => {
                        if let Some((_, i, u)) = pushes.iter().find(|(r, i, _)| i == idx && r < inv) {
                            soft("lost", format!("get({i}) returned None although push of uid {u} had already returned that index"));
                        }
                        if let Some((r, u)) = seen_some.get(idx) {
                            if r < inv {
                                soft("unstable", format!("get({idx}) returned None after an earlier get had returned uid {u}"));
                            }
                        }
                    }
                }
            }
            Ev::Count { inv, value, .. } => {
                let done = completed_before(*inv);
                if *value < done {
                    soft("count", format!("count() returned {value} although {done} pushes had completed before it was called"));
                }
                if *value > reserved {
                    soft("count", format!("count() returned {value}, only {reserved} indices were ever reserved"));
                }
            }
            Ev::Snapshot { start, end, items, par, .. } => {
                let what = if *par { "par_snapshot" } else { "snapshot" };
                if *end < *start || *end > reserved {
                    soft("snapshot-range", format!("{what}({start}) has end {end} (reserved {reserved})"));
                }
                let want: Vec<u32> = (*start..*end).collect();
                let got: Vec<u32> = items.iter().map(|x| x.0).collect();
                if got != want {
                    soft("snapshot-indices", format!("{what}({start}) with end {end} yielded indices {got:?}"));
                }
                for (i, u) in items {
                    if let Some(u) = u {
                        if content.get(*i as usize).copied().flatten() != Some(*u) {
                            soft("moved", format!("{what} saw uid {u} at index {i}, the index holds {:?} at quiescence", content.get(*i as usize)));
                        }
                    }
                }
            }
            _ => {}
        }
    }
    // count() is non-decreasing along real time
    let counts: Vec<(u64, u64, u32)> = evs
        .iter()
        .filter_map(|e| match e {
            Ev::Count { inv, ret, value } => Some((*inv, *ret, *value)),
            _ => None,
        })
        .collect();
    for a in &counts {
        for b in &counts {
            if a.1 < b.0 && a.2 > b.2 {
                soft("count-decreased", format!("count() returned {} and, in a later call, {}", a.2, b.2));
            }
        }
    }
}

/// Index space exhausted: every reservation after the prologue batch must be rejected, nothing
/// may be stored, and count() must be monotone (it stays clamped at the maximum).
fn check_overflow_history(vec: &RawVec<Payload>, rep: u32) {
    const MAX_ENTRIES: u32 = u32::MAX - 32;
    let _q = sim::quiet();
    sim::probe("oracle.c08.overflow");
    let evs = hist(|h| std::mem::take(&mut h.evs));
    let mut counts: Vec<(u64, u64, u32)> = Vec::new();
    for e in &evs {
        match e {
            Ev::Push { uid, idx: Some(i), .. } => soft(
                "accepted-beyond-capacity",
                format!("push of uid {uid} returned index {i} although {rep} indices (more than the maximum {MAX_ENTRIES}) were already reserved"),
            ),
            Ev::Extend { uids, ok: true, reported, .. } if *reported > 0 => soft(
                "accepted-beyond-capacity",
                format!("a batch of {} items was accepted although the index space was exhausted", uids.len()),
            ),
            Ev::Get { idx, got: Some(u), .. } => soft("phantom", format!("get({idx}) returned uid {u} from a vector into which nothing was ever stored")),
            Ev::Count { inv, ret, value } => {
                if *value > MAX_ENTRIES {
                    soft("count", format!("count() returned {value}, more than the maximum number of entries {MAX_ENTRIES}"));
                }
                counts.push((*inv, *ret, *value));
            }
            Ev::Snapshot { items, .. } => {
                if items.iter().any(|x| x.1.is_some()) {
                    soft("phantom", "a snapshot of an empty vector yielded an item".to_string());
                }
            }
            _ => {}
        }
    }
    let fin = vec.count();
    counts.push((u64::MAX - 1, u64::MAX, fin));
    for a in &counts {
        for b in &counts {
            if a.1 < b.0 && a.2 > b.2 {
                soft("count-decreased", format!("count() returned {} and, in a later call, {}", a.2, b.2));
            }
        }
    }
    for i in [0u32, 1, 31, 32, 33] {
        if vec.get(i).is_some() {
            soft("phantom", format!("index {i} holds an item although every push was rejected"));
        }
    }
}

impl Job for BoxcarScript {
    fn sched(&self) -> SchedCfg {
        self.sched.clone()
    }
    fn body(&self) {
        HIST.with(|h| *h.borrow_mut() = Hist::default());
        ledger::with(|l| l.live_handles = vec![1]);
        let vec = Arc::new(RawVec::<Payload>::with_capacity(self.capacity, self.columns));
        let overflow = self.overflow.is_some();
        if let Some(rep) = self.overflow {
            // F3 with a huge lie: reserves `rep` indices without touching memory, then is rejected
            sim::fault("F3.lying_iterator");
            sim::fault("F3.index_space_exhausted");
            let it = LyingIter { items: vec![new_payload(self.columns)].into_iter(), reported: rep as usize };
            let r = world_nucleo::expected_panic(|| vec.extend(it, |item, c| fill(item, c, 0, false)));
            if r.is_ok() {
                sim::violation("C08", "accepted-beyond-capacity", format!("a batch reporting {rep} items (more than the vector can ever hold) was accepted"));
            }
        }
        // a second vector whose item type has no drop glue, size 3 and alignment 1 (the matcher
        // columns behind it still own memory and need 8-byte alignment): C11 "together with the
        // matcher columns filled for it", and the entry layout arithmetic for an odd item size
        let side = RawVec::<[u8; 3]>::with_capacity(self.capacity.min(1), self.columns);
        let side_fill = |v: &[u8; 3], cols: &mut [Utf32String]| {
            for c in cols.iter_mut() {
                *c = alloc::tracked(|| Utf32String::from(format!("side{}", v[0]).as_str()));
            }
        };
        for k in 0..3u8 {
            side.push([k, k, k], side_fill);
        }
        side.extend((3..40u8).map(|k| [k, 0, k]).collect::<Vec<_>>().into_iter(), side_fill);
        for k in 0..40u32 {
            let it = side.get(k).unwrap_or_else(|| sim::violation("C08", "lost", format!("side vector: index {k} is empty after a sequential push")));
            let want = format!("side{k}");
            if it.data[0] as u32 != k || it.matcher_columns.iter().any(|c| c.to_string() != want) {
                sim::violation("C08", "bad-columns", format!("side vector: index {k} holds value {:?} with columns {:?}", it.data, it.matcher_columns.iter().map(|c| c.to_string()).collect::<Vec<_>>()));
            }
        }
        // a third vector whose item type is zero-sized but has drop glue (a permit / guard token)
        thread_local! { static ZST_DROPS: std::cell::Cell<u32> = const { std::cell::Cell::new(0) }; }
        struct Token;
        impl Drop for Token {
            fn drop(&mut self) {
                ZST_DROPS.with(|d| d.set(d.get() + 1));
            }
        }
        ZST_DROPS.with(|d| d.set(0));
        let tokens = RawVec::<Token>::with_capacity(self.capacity.min(1), self.columns);
        for _ in 0..5 {
            tokens.push(Token, |_, _| {});
        }
        tokens.extend((0..35).map(|_| Token).collect::<Vec<_>>().into_iter(), |_, _| {});
        drop(tokens);
        let zd = ZST_DROPS.with(|d| d.get());
        if zd != 40 {
            sim::violation("C11", "leak", format!("a vector of 40 zero-sized items with a Drop impl ran {zd} destructors when it was dropped"));
        }
        let needs_pool = self.threads.iter().flatten().any(|o| matches!(o, BOp::ParSnapshot { .. }));
        let pool = needs_pool.then(|| Arc::new(rayon::ThreadPoolBuilder::new().num_threads(self.pool_threads as usize).build().unwrap()));
        let mut hs = Vec::new();
        for (k, ops) in self.threads.iter().enumerate() {
            let (v, ops, pool) = (vec.clone(), ops.clone(), pool.clone());
            let tok = nucleo_verif_rt::hb::release_token();
            hs.push(shuttle::thread::spawn(move || {
                sim::set_role(Role::Writer(k as u8));
                nucleo_verif_rt::hb::acquire_token(&tok);
                thread_main(v, ops, pool, overflow);
                nucleo_verif_rt::hb::release_token()
            }));
        }
        for h in hs {
            let tok = h.join().unwrap();
            nucleo_verif_rt::hb::acquire_token(&tok);
        }
        if overflow {
            check_overflow_history(&vec, self.overflow.unwrap());
        } else {
            check_history(&vec);
        }
        drop(side);
        drop(pool);
        ledger::with(|l| l.live_handles = vec![0]);
        drop(vec);
    }
    fn post(&self, out: &mut Outcome) {
        world_nucleo::post_accounting(out);
    }
}

pub fn generate(rng: &mut SplitMix, focus: &str, thorough: bool) -> BoxcarScript {
    let capacity = pick(rng, &[0u32, 0, 1, 1, 31, 32, 33, 100]);
    let columns = pick(rng, &[1u32, 1, 2, 3]);
    let nthreads = 2 + rng.below(3);
    let faulty_pm: u64 = match focus {
        "C11" => 500,
        "C09" => 50,
        _ => 200,
    };
    // indices near every bucket boundary of the first buckets (32, 64, 128 entries), a far one
    let near = [0u32, 1, 30, 31, 32, 33, 94, 95, 96, 97, 222, 223, 224, 225, 600, 5000];
    let mut threads = Vec::new();
    for _ in 0..nthreads {
        let n = 1 + rng.below(if thorough { 8 } else { 6 });
        let mut ops = Vec::new();
        for _ in 0..n {
            let faulty = rng.below(1000) < faulty_pm;
            let op = match rng.below(20) {
                0..=5 => {
                    if faulty && rng.below(3) == 0 {
                        BOp::PushPanic
                    } else {
                        BOp::Push { burn: if rng.below(3) == 0 { 1 + rng.below(10) as u32 } else { 0 } }
                    }
                }
                6..=9 => {
                    let n = pick(rng, &[0u32, 1, 2, 2, 5, 5, 31, 32, 33, 40, 100]);
                    let (lie, panic_at) = if faulty && n > 0 {
                        match rng.below(5) {
                            // holes spanning whole buckets matter (C11): lie sizes relative to the geometry
                            0 => (Lie::Long(pick(rng, &[1u32, 3, 32, 70, 200])), None),
                            1 => (Lie::Short(1 + rng.below(n.min(3) as u64) as u32), None),
                            2 => (Lie::Zero, None),
                            3 => (Lie::Honest, Some(pick(rng, &[0u32, 1, n / 2, n - 1]))),
                            _ => (Lie::Long(pick(rng, &[1u32, 40, 100])), Some(pick(rng, &[0u32, 1, n - 1]))),
                        }
                    } else {
                        (Lie::Honest, None)
                    };
                    BOp::Extend { n, lie, panic_at, burn: if rng.below(4) == 0 { 1 + rng.below(8) as u32 } else { 0 } }
                }
                10..=12 => BOp::Get { idx: if rng.below(10) == 0 { pick(rng, &[u32::MAX, u32::MAX - 31, u32::MAX - 32, u32::MAX - 33, 1 << 31]) } else { pick(rng, &near) } },
                13 | 14 => BOp::GetOwn,
                15 | 16 => BOp::Count,
                17 => BOp::Snapshot { start: pick(rng, &[0u32, 0, 1, 30, 33, 96]) },
                18 => BOp::ParSnapshot { start: pick(rng, &[0u32, 0, 1, 30, 33, 96]) },
                _ => BOp::Burn { k: 1 + rng.below(15) as u32 },
            };
            ops.push(op);
        }
        threads.push(ops);
    }
    let est = pick(rng, &[80u64, 200, 500, 1200]);
    let sched = SchedCfg::generate(rng, est, nthreads as u32, 400_000);
    // one run in 25 exhausts the index space first (2^32 - 33 entries is the documented limit)
    let overflow = (rng.below(25) == 0).then(|| u32::MAX - pick(rng, &[0u32, 1, 3, 8, 20, 31]));
    if overflow.is_some() {
        // snapshots of a vector whose counter is saturated would walk billions of empty entries
        for t in threads.iter_mut() {
            t.retain(|o| !matches!(o, BOp::Snapshot { .. } | BOp::ParSnapshot { .. }));
            for o in t.iter_mut() {
                if let BOp::Extend { n, lie, panic_at, .. } = o {
                    *n = (*n).clamp(1, 5);
                    *lie = Lie::Honest;
                    *panic_at = None;
                }
            }
        }
    }
    BoxcarScript { overflow, capacity, columns, pool_threads: pick(rng, &[1u32, 2, 2, 3]), threads, sched }
}

pub fn candidates(s: &BoxcarScript) -> Vec<BoxcarScript> {
    let mut out = Vec::new();
    for t in 0..s.threads.len() {
        if !s.threads[t].is_empty() {
            let mut c = s.clone();
            c.threads[t].clear();
            out.push(c);
        }
    }
    for t in 0..s.threads.len() {
        for i in (0..s.threads[t].len()).rev() {
            let mut c = s.clone();
            c.threads[t].remove(i);
            out.push(c);
        }
    }
    for t in 0..s.threads.len() {
        for i in 0..s.threads[t].len() {
            match &s.threads[t][i] {
                BOp::Extend { n, lie, panic_at, burn } => {
                    if *n > 1 {
                        let mut c = s.clone();
                        let n2 = n / 2;
                        c.threads[t][i] = BOp::Extend { n: n2, lie: lie.clone(), panic_at: panic_at.map(|p| p.min(n2.saturating_sub(1))), burn: *burn };
                        out.push(c);
                    }
                    if *lie != Lie::Honest {
                        let mut c = s.clone();
                        c.threads[t][i] = BOp::Extend { n: *n, lie: Lie::Honest, panic_at: *panic_at, burn: *burn };
                        out.push(c);
                    }
                    if *burn > 0 {
                        let mut c = s.clone();
                        c.threads[t][i] = BOp::Extend { n: *n, lie: lie.clone(), panic_at: *panic_at, burn: 0 };
                        out.push(c);
                    }
                }
                BOp::Push { burn } if *burn > 0 => {
                    let mut c = s.clone();
                    c.threads[t][i] = BOp::Push { burn: 0 };
                    out.push(c);
                }
                BOp::PushPanic => {
                    let mut c = s.clone();
                    c.threads[t][i] = BOp::Push { burn: 0 };
                    out.push(c);
                }
                _ => {}
            }
        }
    }
    if s.columns > 1 {
        let mut c = s.clone();
        c.columns = 1;
        out.push(c);
    }
    out
}
