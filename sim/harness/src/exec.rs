//! Execute simulated runs: one `Job` = one world script + one schedule (seed or recorded trace).
use std::cell::RefCell;
use std::collections::BTreeMap;
use std::panic::{catch_unwind, AssertUnwindSafe};
use std::rc::Rc;

use nucleo_verif_rt::sched::{RoleMask, SimScheduler, Strategy};
use nucleo_verif_rt::sim::{self, Role, SplitMix, Violation, ViolationAbort};
use serde::{Deserialize, Serialize};
use shuttle::scheduler::{Schedule, Scheduler, Task, TaskId};

use crate::{alloc, ledger};

#[derive(Serialize, Deserialize, Clone, Debug, PartialEq)]
pub enum StrategyCfg {
    Uniform,
    Sticky(u32),
    Pct(Vec<u64>),
    Starve { ui: bool, pool: bool, writers: u32, from: u64, len: u64, sticky: u32 },
}
#[derive(Serialize, Deserialize, Clone, Debug)]
pub struct SchedCfg {
    pub schedule_seed: u64,
    pub shim_seed: u64,
    pub strategy: StrategyCfg,
    pub p_timer_ppm: u32,
    pub step_cost_ns: u64,
    pub step_cap: u64,
}
impl SchedCfg {
    /// Swarm: each run draws one strategy with its parameters.
    pub fn generate(rng: &mut SplitMix, est_decisions: u64, writers: u32, step_cap: u64) -> SchedCfg {
        let strategy = match rng.below(10) {
            0 | 1 => StrategyCfg::Uniform,
            2 => StrategyCfg::Sticky(500),
            3 | 4 => StrategyCfg::Sticky(900),
            5 => StrategyCfg::Sticky(990),
            6 | 7 => {
                let d = [1, 2, 3, 5][rng.below(4) as usize];
                StrategyCfg::Pct((0..d).map(|_| rng.below(est_decisions.max(1))).collect())
            }
            _ => {
                let from = rng.below(est_decisions.max(1));
                let len = 1 + rng.below(est_decisions.max(1));
                match rng.below(3) {
                    0 => StrategyCfg::Starve { ui: false, pool: true, writers: 0, from, len, sticky: 700 },
                    1 => StrategyCfg::Starve { ui: true, pool: false, writers: 0, from, len, sticky: 700 },
                    _ => StrategyCfg::Starve {
                        ui: false,
                        pool: false,
                        writers: if writers == 0 { 1 } else { 1 << rng.below(writers as u64) },
                        from,
                        len,
                        sticky: 700,
                    },
                }
            }
        };
        SchedCfg {
            schedule_seed: rng.next(),
            shim_seed: rng.next(),
            strategy,
            p_timer_ppm: [0, 10_000, 100_000, 500_000][rng.below(4) as usize],
            step_cost_ns: [1_000, 100_000, 1_000_000][rng.below(3) as usize],
            step_cap,
        }
    }
    fn strategy(&self) -> Strategy {
        match &self.strategy {
            StrategyCfg::Uniform => Strategy::Uniform,
            StrategyCfg::Sticky(p) => Strategy::Sticky(*p),
            StrategyCfg::Pct(c) => Strategy::Pct { change_points: c.clone() },
            StrategyCfg::Starve { ui, pool, writers, from, len, sticky } => Strategy::Starve {
                victims: RoleMask { ui: *ui, pool: *pool, writers: *writers },
                from: *from,
                len: *len,
                sticky: *sticky,
            },
        }
    }
    pub fn strategy_name(&self) -> &'static str {
        self.strategy().name()
    }
}

/// What a world has to provide to be executed.
pub trait Job {
    fn sched(&self) -> SchedCfg;
    /// body of the main (UI) thread, inside the simulation
    fn body(&self);
    /// after the execution has fully ended (every simulated thread finished)
    fn post(&self, _out: &mut Outcome) {}
    fn capacity_knob(&self) -> Option<u32> {
        None
    }
    /// only every n-th atomic operation of the library is a real scheduling point
    fn yield_every(&self) -> u32 {
        1
    }
    /// weak-memory mode (per-thread store buffers), with the per-mille chance that a scheduling
    /// point of a thread drains one of its buffered stores
    fn weak_memory(&self) -> Option<u32> {
        None
    }
}

#[derive(Default, Debug, Clone)]
pub struct Outcome {
    pub violations: Vec<Violation>,
    pub others: Vec<Violation>,
    pub stats: sim::Stats,
    pub probes: BTreeMap<&'static str, u64>,
    pub faults: BTreeMap<&'static str, u64>,
    pub trace: Vec<u32>,
    pub trace_hash: u64,
    pub trace_tail: Vec<String>,
    pub log: Vec<String>,
    pub plain_checks: u64,
    pub atomic_ops: u64,
    pub completed: bool,
}

struct Slot {
    job: Rc<dyn Job>,
    replay: Option<Vec<u32>>,
}
/// the property this process decides ("" = every violation aborts the run)
static CHECK_PROPERTY: std::sync::Mutex<&'static str> = std::sync::Mutex::new("");
pub fn set_check_property(p: &str) {
    *CHECK_PROPERTY.lock().unwrap() = Box::leak(p.to_string().into_boxed_str());
}
thread_local! {
    static CURRENT: RefCell<Option<Rc<dyn Job>>> = const { RefCell::new(None) };
}

/// Scheduler wrapper that lets one shuttle `Runner` (and its pool of coroutine stacks) serve many
/// executions: each `new_execution` pulls the next job.
struct BatchScheduler {
    next: Box<dyn FnMut() -> Option<Slot>>,
    finished: Box<dyn FnMut()>,
    inner: Option<SimScheduler>,
    first: bool,
}
impl Scheduler for BatchScheduler {
    fn new_execution(&mut self) -> Option<Schedule> {
        if !self.first {
            (self.finished)();
        }
        self.first = false;
        let slot = (self.next)()?;
        let cfg = slot.job.sched();
        begin_execution(&*slot.job, &cfg);
        let mut s = SimScheduler::new(cfg.schedule_seed, cfg.strategy(), slot.replay);
        s.new_execution();
        self.inner = Some(s);
        CURRENT.with(|c| *c.borrow_mut() = Some(slot.job));
        Some(Schedule::new(0))
    }
    fn next_task(&mut self, r: &[&Task], c: Option<TaskId>, y: bool) -> Option<TaskId> {
        self.inner.as_mut().unwrap().next_task(r, c, y)
    }
    fn next_u64(&mut self) -> u64 {
        sim::shim_u64()
    }
}

fn begin_execution(job: &dyn Job, cfg: &SchedCfg) {

    let _ = last_panic_location();
    sim::reset(|s| {
        s.step_cost = cfg.step_cost_ns;
        s.p_timer_ppm = cfg.p_timer_ppm;
        s.step_cap = cfg.step_cap;
        s.yield_every = job.yield_every();
        if let Some(pm) = job.weak_memory() {
            s.weak = true;
            s.flush_ppm = pm * 1000;
        }
        s.shim_rng = SplitMix::derive(cfg.shim_seed, 0x5111);
        s.check_property = *CHECK_PROPERTY.lock().unwrap();
    });
    ledger::reset();
    let _ = alloc::end_execution();
    alloc::set_poison(true);
    nucleo_verif_rt::knobs::set_capacity(job.capacity_knob());
    sim::set_active(true);
}

fn collect(job: &dyn Job, completed: bool, panic_msg: Option<String>) -> Outcome {
    sim::set_active(false);
    alloc::set_poison(false);
    let mut out = Outcome { completed, ..Default::default() };
    if let Some(m) = panic_msg {
        let class = if m.contains("deadlock") { "deadlock" } else { "crash" };
        let m = if class == "crash" { format!("panic at {}: {m}", last_panic_location()) } else { m };
        sim::record_violation("*", class, m);
    }
    if completed {
        job.post(&mut out);
    }
    let (pc, ao, _) = nucleo_verif_rt::hb::counters();
    out.plain_checks = pc;
    out.atomic_ops = ao;
    sim::with(|s| {
        s.stats.sim_ns = s.now;
        out.violations.append(&mut s.violations);
        out.others.append(&mut s.others);
        out.stats = s.stats.clone();
        for (k, v) in std::mem::take(&mut s.probes) {
            *out.probes.entry(k).or_insert(0) += v;
        }
        out.faults = std::mem::take(&mut s.faults);
        out.trace = std::mem::take(&mut s.trace);
        out.trace_hash = s.trace_hash;
        let n = s.trace_sites.len();
        out.trace_tail = s.trace_sites[n.saturating_sub(60)..]
            .iter()
            .enumerate()
            .map(|(i, (r, site))| format!("#{} {} {}", n.saturating_sub(60) + i, r, site))
            .collect();
        out.log = std::mem::take(&mut s.log);
    });
    out
}

fn payload_message(p: Box<dyn std::any::Any + Send>) -> Option<String> {
    if p.is::<ViolationAbort>() {
        return None;
    }
    Some(if let Some(s) = p.downcast_ref::<String>() {
        s.clone()
    } else if let Some(s) = p.downcast_ref::<&'static str>() {
        s.to_string()
    } else {
        "panic with a non-string payload".to_string()
    })
}

fn shuttle_config() -> shuttle::Config {
    let mut cfg = shuttle::Config::new();
    cfg.stack_size = 0x40000;
    cfg.failure_persistence = shuttle::FailurePersistence::None;
    cfg.max_steps = shuttle::MaxSteps::None;
    cfg.silence_warnings = true;
    cfg
}

/// Run jobs until `next` returns None; `sink` receives every outcome. Returns the number of runs.
///
/// One shuttle `Runner` serves consecutive executions until one of them aborts (a violation or a
/// crash). Everything on the OS thread of an aborted execution is suspect afterwards (half-unwound
/// coroutines, the thread's panic counter, thread-locals), so every `Runner` lives on its own OS
/// thread and the batch continues on a fresh one.
pub fn run_batch(
    next: impl FnMut() -> Option<(Rc<dyn Job>, Option<Vec<u32>>)> + 'static,
    sink: impl FnMut(Rc<dyn Job>, Outcome) + 'static,
) -> u64 {
    struct AssertSend<T>(T);
    unsafe impl<T> Send for AssertSend<T> {}
    let sink: Rc<RefCell<dyn FnMut(Rc<dyn Job>, Outcome)>> = Rc::new(RefCell::new(sink));
    let next: Rc<RefCell<dyn FnMut() -> Option<(Rc<dyn Job>, Option<Vec<u32>>)>>> = Rc::new(RefCell::new(next));
    let count = Rc::new(RefCell::new(0u64));
    let exhausted = Rc::new(RefCell::new(false));
    while !*exhausted.borrow() {
        // the closure and everything it captures is used by one thread at a time: this thread
        // blocks in `join` while the runner thread works
        let work = AssertSend((next.clone(), sink.clone(), count.clone(), exhausted.clone()));
        std::thread::scope(|sc| {
            let h = std::thread::Builder::new()
                .stack_size(8 << 20)
                .spawn_scoped(sc, move || {
                    let work = work;
                    let (next, sink, count, exhausted) = work.0;
                    one_runner(next, sink, count, exhausted);
                })
                .expect("spawn runner thread");
            if h.join().is_err() {
                eprintln!("nsim: runner thread died");
                std::process::exit(2);
            }
        });
    }
    let n = *count.borrow();
    n
}

#[allow(clippy::type_complexity)]
fn one_runner(
    next: Rc<RefCell<dyn FnMut() -> Option<(Rc<dyn Job>, Option<Vec<u32>>)>>>,
    sink: Rc<RefCell<dyn FnMut(Rc<dyn Job>, Outcome)>>,
    count: Rc<RefCell<u64>>,
    exhausted: Rc<RefCell<bool>>,
) {
    let (n2, e2) = (next.clone(), exhausted.clone());
    let (s2, c2) = (sink.clone(), count.clone());
    let sched = BatchScheduler {
        next: Box::new(move || match (n2.borrow_mut())() {
            Some((job, replay)) => Some(Slot { job, replay }),
            None => {
                *e2.borrow_mut() = true;
                None
            }
        }),
        finished: Box::new(move || {
            // the previous execution ran to completion
            if let Some(job) = CURRENT.with(|c| c.borrow_mut().take()) {
                let out = collect(&*job, true, None);
                *c2.borrow_mut() += 1;
                (s2.borrow_mut())(job, out);
            }
        }),
        inner: None,
        first: true,
    };
    let runner = shuttle::Runner::new(sched, shuttle_config());
    let r = catch_unwind(AssertUnwindSafe(|| {
        runner.run(|| {
            let job = CURRENT.with(|c| c.borrow().clone()).expect("no current job");
            // shuttle installs its own (noisy) panic hook when the first execution starts
            static QUIET: std::sync::Once = std::sync::Once::new();
            QUIET.call_once(install_quiet_panic_hook);
            sim::set_role(Role::Ui);
            sim::spawn_registered(Role::Clock, sim::clock_main);
            job.body();
            sim::stop_clock();
            sim::drain();
        })
    }));
    // the last execution of this runner: completed (Ok) or aborted (Err)
    if let Some(job) = CURRENT.with(|c| c.borrow_mut().take()) {
        let out = match r {
            Ok(_) => collect(&*job, true, None),
            Err(p) => collect(&*job, false, payload_message(p)),
        };
        *count.borrow_mut() += 1;
        (sink.borrow_mut())(job, out);
    }
}

/// Convenience: run one job, return its outcome.
pub fn run_one(job: Rc<dyn Job>, replay: Option<Vec<u32>>) -> Outcome {
    let mut slot = Some((job, replay));
    let out = Rc::new(RefCell::new(None));
    let o2 = out.clone();
    run_batch(move || slot.take(), move |_j, o| *o2.borrow_mut() = Some(o));
    let o = out.borrow_mut().take().expect("no outcome");
    o
}

/// Quiet panic hook: expected panics (injected faults, violation aborts) must not flood stderr.
pub fn install_quiet_panic_hook() {
    std::panic::set_hook(Box::new(|info| {
        // keep the location of the last panic for crash reports; print nothing
        let loc = info.location().map(|l| format!("{}:{}", l.file(), l.line())).unwrap_or_default();
        let msg = info.payload().downcast_ref::<&str>().map(|s| s.to_string()).or_else(|| info.payload().downcast_ref::<String>().cloned()).unwrap_or_default();
        if msg.starts_with("misaligned pointer dereference") || msg.starts_with("unsafe precondition") || msg.starts_with("null pointer dereference") {
            // debug-build UB checks do not unwind: the process is about to abort and this is the
            // only chance to say why
            eprintln!("non-unwinding panic at {loc}: {msg}");
        }
        // the first panic of a burst is the cause; later ones are fallout
        LAST_PANIC_AT.with(|l| {
            let mut l = l.borrow_mut();
            if l.is_empty() {
                *l = loc
            }
        });
    }));
}
thread_local! { static LAST_PANIC_AT: RefCell<String> = const { RefCell::new(String::new()) }; }
pub fn last_panic_location() -> String {
    LAST_PANIC_AT.with(|l| std::mem::take(&mut *l.borrow_mut()))
}
