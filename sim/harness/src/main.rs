//! nsim — deterministic simulation of nucleo with fault injection.
//!
//!   nsim batch   --property C06 --seed S --start I --count N [--thorough] --out FILE --replay-dir DIR
//!   nsim replay  FILE            re-execute a replay file; exit 1 if its violation reproduces
//!   nsim minimise FILE           shrink script and schedule of a replay file in place
//!   nsim determinism --property P --seed S --start I --count N   print one hash per run
use std::cell::RefCell;
use std::collections::BTreeMap;
use std::rc::Rc;

use nucleo_verif_rt::sim::SplitMix;
use serde::{Deserialize, Serialize};
use serde_json::json;

mod alloc;
mod exec;
mod gen;
mod ledger;
mod minimise;
mod world_boxcar;
mod world_nucleo;
mod world_sort;

#[global_allocator]
static ALLOC: alloc::SimAlloc = alloc::SimAlloc;

use exec::{Job, Outcome};

#[derive(Serialize, Deserialize, Clone, Debug)]
pub enum AnyScript {
    Nucleo(world_nucleo::NucleoScript),
    Boxcar(world_boxcar::BoxcarScript),
    Sort(world_sort::SortScript),
}
impl AnyScript {
    pub fn job(&self) -> Rc<dyn Job> {
        match self {
            AnyScript::Nucleo(s) => Rc::new(s.clone()),
            AnyScript::Boxcar(s) => Rc::new(s.clone()),
            AnyScript::Sort(s) => Rc::new(s.clone()),
        }
    }
    pub fn summary(&self) -> String {
        match self {
            AnyScript::Nucleo(s) => format!("nucleo: {}", s.summary()),
            AnyScript::Boxcar(s) => format!("boxcar: {}", s.summary()),
            AnyScript::Sort(s) => format!("sort: {}", s.summary()),
        }
    }
    pub fn world(&self) -> &'static str {
        match self {
            AnyScript::Nucleo(s) if s.event_loop => "eventloop",
            AnyScript::Nucleo(_) => "nucleo",
            AnyScript::Boxcar(_) => "boxcar",
            AnyScript::Sort(_) => "sort",
        }
    }
    pub fn strategy(&self) -> &'static str {
        match self {
            AnyScript::Nucleo(s) => s.sched.strategy_name(),
            AnyScript::Boxcar(s) => s.sched.strategy_name(),
            AnyScript::Sort(s) => s.sched.strategy_name(),
        }
    }
}

/// one-step reductions for worlds other than W-nucleo
pub fn minimise_other(s: &AnyScript) -> Vec<AnyScript> {
    match s {
        AnyScript::Boxcar(b) => world_boxcar::candidates(b).into_iter().map(AnyScript::Boxcar).collect(),
        AnyScript::Sort(b) => world_sort::candidates(b).into_iter().map(AnyScript::Sort).collect(),
        AnyScript::Nucleo(_) => Vec::new(),
    }
}

#[derive(Serialize, Deserialize, Clone, Debug)]
pub struct ViolationRec {
    pub property: String,
    pub class: String,
    pub message: String,
    pub at_decision: u64,
}
#[derive(Serialize, Deserialize, Clone, Debug)]
pub struct ReplayFile {
    pub property: String,
    pub world: String,
    pub focus: String,
    pub verif_seed: u64,
    pub index: u64,
    pub script: AnyScript,
    pub trace: Vec<u32>,
    pub violation: ViolationRec,
    pub trace_tail: Vec<String>,
    pub log: Vec<String>,
    pub minimised: bool,
    pub replay_mismatches: u64,
}

/// which worlds (scenario families) serve a property, with weights
fn plan(property: &str) -> Vec<(&'static str, &'static str, u32)> {
    match property {
        "C06" => vec![("nucleo", "C06", 6), ("nucleo", "mix", 2), ("nucleo", "C12", 1), ("nucleo", "C07seq", 1)],
        "C07" => vec![("nucleo", "C07", 5), ("nucleo", "C07seq", 3), ("nucleo", "mix", 1)],
        "C12" => vec![("nucleo", "C12", 7), ("nucleo", "mix", 2)],
        "C19" => vec![("nucleo", "C19", 6), ("nucleo", "C12", 2), ("nucleo", "mix", 2)],
        "C20" => vec![("nucleo", "C20", 7), ("nucleo", "C12", 2)],
        "C13" => vec![("nucleo", "C13", 1)],
        "C08" => vec![("boxcar", "C08", 8), ("nucleo", "C09", 1), ("nucleo", "mix", 1)],
        "C11" => vec![("nucleo", "C11", 3), ("boxcar", "C11", 2)],
        "C09" => vec![("nucleo", "C09", 2), ("boxcar", "C09", 2), ("sort", "C18", 1)],
        "C18" => vec![("sort", "C18", 1)],
        _ => vec![("nucleo", "mix", 1)],
    }
}

pub fn run_seed(verif_seed: u64, property: &str, index: u64) -> u64 {
    let mut h = 0xcbf29ce484222325u64;
    for b in property.bytes() {
        h = (h ^ b as u64).wrapping_mul(0x100000001b3);
    }
    let mut s = SplitMix(verif_seed ^ h);
    s.next();
    let mut s = SplitMix(s.next().wrapping_add(index.wrapping_mul(0x9E3779B97F4A7C15)));
    s.next()
}

pub fn generate(property: &str, verif_seed: u64, index: u64, thorough: bool) -> (AnyScript, &'static str) {
    let p = plan(property);
    let total: u32 = p.iter().map(|x| x.2).sum();
    let mut k = (index % total as u64) as u32;
    let mut chosen = p[0];
    for e in &p {
        if k < e.2 {
            chosen = *e;
            break;
        }
        k -= e.2;
    }
    let mut rng = SplitMix::derive(run_seed(verif_seed, property, index), 1);
    let script = match chosen.0 {
        "boxcar" => AnyScript::Boxcar(world_boxcar::generate(&mut rng, chosen.1, thorough)),
        "sort" => AnyScript::Sort(world_sort::generate(&mut rng, chosen.1, thorough)),
        _ => AnyScript::Nucleo(world_nucleo::generate(&mut rng, chosen.1, thorough)),
    };
    (script, chosen.1)
}

/// does a recorded violation count for the property under check?
pub fn counts_for(v_property: &str, property: &str) -> bool {
    nucleo_verif_rt::sim::counts_for(v_property, property)
}

struct Args(Vec<String>);
impl Args {
    fn get(&self, k: &str) -> Option<String> {
        self.0.iter().position(|a| a == k).and_then(|i| self.0.get(i + 1).cloned())
    }
    fn flag(&self, k: &str) -> bool {
        self.0.iter().any(|a| a == k)
    }
    fn u64(&self, k: &str, d: u64) -> u64 {
        self.get(k).map_or(d, |v| v.parse().expect("number"))
    }
}

#[derive(Default)]
struct Agg {
    runs: u64,
    steps: u64,
    decisions: u64,
    preemptions: u64,
    short_fired: u64,
    long_fired: u64,
    sim_ns: u64,
    max_steps: u64,
    plain_checks: u64,
    atomic_ops: u64,
    probes: BTreeMap<String, u64>,
    faults: BTreeMap<String, u64>,
    strategies: BTreeMap<String, u64>,
    worlds: BTreeMap<String, u64>,
    hashes: Vec<u64>,
    samples: Vec<serde_json::Value>,
    violations: Vec<serde_json::Value>,
    other: Vec<serde_json::Value>,
}

fn batch(a: &Args) -> i32 {
    let property = a.get("--property").expect("--property");
    let seed = a.u64("--seed", 1);
    let start = a.u64("--start", 0);
    let count = a.u64("--count", 100);
    let thorough = a.flag("--thorough");
    let out_path = a.get("--out");
    let replay_dir = a.get("--replay-dir").unwrap_or_else(|| ".".into());
    let max_viol = a.u64("--max-violations", 3);
    let agg = Rc::new(RefCell::new(Agg::default()));
    let t0 = std::time::Instant::now();
    let budget = a.get("--budget-s").map(|s| s.parse::<f64>().unwrap());

    exec::set_check_property(&property);
    let mut i = start;
    let end = start + count;
    let meta: Rc<RefCell<BTreeMap<usize, (u64, AnyScript, &'static str)>>> = Default::default();
    let (m1, m2) = (meta.clone(), meta.clone());
    let (p1, p2) = (property.clone(), property.clone());
    let ag2 = agg.clone();
    let rd = replay_dir.clone();
    let stop = Rc::new(RefCell::new(false));
    let stop2 = stop.clone();
    exec::run_batch(
        move || {
            if i >= end || *stop.borrow() {
                return None;
            }
            if let Some(b) = budget {
                if t0.elapsed().as_secs_f64() > b {
                    return None;
                }
            }
            let (script, focus) = generate(&p1, seed, i, thorough);
            let job = script.job();
            m1.borrow_mut().insert(Rc::as_ptr(&job) as *const () as usize, (i, script, focus));
            i += 1;
            Some((job, None))
        },
        move |job, out: Outcome| {
            let (index, script, focus) = m2.borrow_mut().remove(&(Rc::as_ptr(&job) as *const () as usize)).unwrap();
            let mut ag = ag2.borrow_mut();
            ag.runs += 1;
            ag.steps += out.stats.steps;
            ag.decisions += out.stats.decisions;
            ag.preemptions += out.stats.preemptions;
            ag.short_fired += out.stats.short_fired;
            ag.long_fired += out.stats.long_fired;
            ag.sim_ns += out.stats.sim_ns;
            ag.max_steps = ag.max_steps.max(out.stats.steps);
            ag.plain_checks += out.plain_checks;
            ag.atomic_ops += out.atomic_ops;
            for (k, v) in &out.probes {
                *ag.probes.entry(k.to_string()).or_insert(0) += v;
            }
            for (k, v) in &out.faults {
                *ag.faults.entry(k.to_string()).or_insert(0) += v;
            }
            let strat = script.strategy();
            *ag.strategies.entry(strat.to_string()).or_insert(0) += 1;
            *ag.worlds.entry(format!("{}/{}", script.world(), focus)).or_insert(0) += 1;
            if out.stats.preemptions > 0 {
                ag.hashes.push(out.trace_hash);
            }
            if ag.samples.len() < 3 {
                ag.samples.push(json!({"index": index, "world": script.world(), "focus": focus, "summary": script.summary(),
                    "decisions": out.stats.decisions, "preemptions": out.stats.preemptions, "script": script}));
            }
            // first violation that counts for this property, else note the others
            // only the first violation of an execution is a verdict; whatever is recorded after it
            // (while the failed execution unwinds) is fallout
            let mine = out.violations.first().filter(|v| counts_for(&v.property, &p2));
            if let Some(v) = mine {
                let rf = ReplayFile {
                    property: p2.clone(),
                    world: script.world().to_string(),
                    focus: focus.to_string(),
                    verif_seed: seed,
                    index,
                    script: script.clone(),
                    trace: out.trace.clone(),
                    violation: ViolationRec { property: v.property.clone(), class: v.class.clone(), message: v.message.clone(), at_decision: v.at_decision },
                    trace_tail: out.trace_tail.clone(),
                    log: out.log.clone(),
                    minimised: false,
                    replay_mismatches: 0,
                };
                let path = format!("{}/{}-{}-{}-{}.json", rd, p2, script.world(), seed, index);
                let _ = std::fs::create_dir_all(&rd);
                std::fs::write(&path, serde_json::to_string_pretty(&rf).unwrap()).expect("write replay");
                ag.violations.push(json!({"index": index, "class": v.class, "message": v.message, "replay": path, "tagged": v.property}));
                if ag.violations.len() as u64 >= max_viol {
                    *stop2.borrow_mut() = true;
                }
            } else if let Some(v) = out.violations.first().or(out.others.first()) {
                // debugging aid: NSIM_REPORT_OTHERS=<dir> also files violations tagged for other
                // properties (as replay files of the property they are tagged for)
                if let Ok(dir) = std::env::var("NSIM_REPORT_OTHERS") {
                    let tag = v.property.split('+').next().unwrap_or("C06").to_string();
                    let rf = ReplayFile {
                        property: tag.clone(),
                        world: script.world().to_string(),
                        focus: focus.to_string(),
                        verif_seed: seed,
                        index,
                        script: script.clone(),
                        trace: out.trace.clone(),
                        violation: ViolationRec { property: v.property.clone(), class: v.class.clone(), message: v.message.clone(), at_decision: v.at_decision },
                        trace_tail: out.trace_tail.clone(),
                        log: out.log.clone(),
                        minimised: false,
                        replay_mismatches: 0,
                    };
                    let _ = std::fs::create_dir_all(&dir);
                    let _ = std::fs::write(format!("{dir}/{tag}-from-{}-{}-{}.json", p2, seed, index), serde_json::to_string_pretty(&rf).unwrap());
                }
                if ag.other.len() < 20 {
                    ag.other.push(json!({"index": index, "property": v.property, "class": v.class, "message": v.message}));
                }
            }
        },
    );
    let ag = agg.borrow();
    let res = json!({
        "property": property, "seed": seed, "start": start, "count": count, "thorough": thorough,
        "runs": ag.runs, "steps": ag.steps, "decisions": ag.decisions, "preemptions": ag.preemptions,
        "timers_short_fired": ag.short_fired, "timers_long_fired": ag.long_fired, "sim_ns": ag.sim_ns,
        "max_steps": ag.max_steps, "plain_checks": ag.plain_checks, "atomic_ops": ag.atomic_ops,
        "probes": ag.probes, "faults": ag.faults, "strategies": ag.strategies, "worlds": ag.worlds,
        "hashes": ag.hashes, "samples": ag.samples, "violations": ag.violations, "other_property_violations": ag.other,
        "wall_s": t0.elapsed().as_secs_f64(),
    });
    match out_path {
        Some(p) => std::fs::write(p, serde_json::to_string(&res).unwrap()).expect("write out"),
        None => {
            let mut r = res.clone();
            r["hashes"] = json!(ag.hashes.len());
            r["samples"] = json!(ag.samples.len());
            println!("{}", serde_json::to_string_pretty(&r).unwrap());
        }
    }
    if ag.violations.is_empty() {
        0
    } else {
        1
    }
}

pub fn load_replay(path: &str) -> ReplayFile {
    let s = std::fs::read_to_string(path).unwrap_or_else(|e| {
        eprintln!("cannot read {path}: {e}");
        std::process::exit(2)
    });
    serde_json::from_str(&s).unwrap_or_else(|e| {
        eprintln!("cannot parse {path}: {e}");
        std::process::exit(2)
    })
}

fn replay(a: &Args) -> i32 {
    let path = a.0.get(1).expect("replay FILE").clone();
    let rf = load_replay(&path);
    exec::set_check_property(&rf.property);
    let out = exec::run_one(rf.script.job(), Some(rf.trace.clone()));
    let hit = out.violations.first().filter(|v| counts_for(&v.property, &rf.property) && v.class == rf.violation.class);
    if a.flag("--verbose") {
        for l in &out.log {
            println!("  log {l}");
        }
        for l in &out.trace_tail {
            println!("  trace {l}");
        }
    }
    if a.flag("--verbose") {
        for v in &out.violations {
            println!("  violation [{}] {} at decision {} task {}: {}", v.property, v.class, v.at_decision, v.task, v.message);
        }
    }
    println!("replay {}: script {} ; {} decisions, {} replay mismatches", path, rf.script.summary(), out.stats.decisions, out.stats.replay_mismatches);
    match hit {
        Some(v) => {
            println!("REPRODUCED property={} class={} at decision {}: {}", rf.property, v.class, v.at_decision, v.message);
            println!("VIOLATION property={} replay={}", rf.property, path);
            1
        }
        None => {
            match out.violations.first() {
                Some(v) => println!("NOT-REPRODUCED (a different violation occurred: {} {} {})", v.property, v.class, v.message),
                None => println!("NOT-REPRODUCED (no violation)"),
            }
            0
        }
    }
}

fn determinism(a: &Args) -> i32 {
    let property = a.get("--property").expect("--property");
    let seed = a.u64("--seed", 1);
    let start = a.u64("--start", 0);
    let count = a.u64("--count", 100);
    let thorough = a.flag("--thorough");
    let mut i = start;
    let p1 = property.clone();
    let idx = Rc::new(RefCell::new(start));
    let idx2 = idx.clone();
    exec::run_batch(
        move || {
            if i >= start + count {
                return None;
            }
            let (script, _) = generate(&p1, seed, i, thorough);
            i += 1;
            Some((script.job(), None))
        },
        move |_job, out| {
            let mut k = idx2.borrow_mut();
            // one line per run: everything observable must be identical across processes
            println!(
                "{} {:016x} d={} p={} s={} t={} v={} probes={}",
                *k,
                out.trace_hash,
                out.stats.decisions,
                out.stats.preemptions,
                out.stats.steps,
                out.stats.sim_ns,
                out.violations.len(),
                out.probes.values().sum::<u64>()
            );
            *k += 1;
        },
    );
    0
}

/// Replay exactness: execute from the seed, then again from the recorded decision trace; the two
/// executions must make identical decisions (same hash, zero replay mismatches).
fn selftest_replay(a: &Args) -> i32 {
    let property = a.get("--property").expect("--property");
    let seed = a.u64("--seed", 1);
    let start = a.u64("--start", 0);
    let count = a.u64("--count", 100);
    let mut bad = 0;
    for i in start..start + count {
        let (script, _) = generate(&property, seed, i, false);
        let o1 = exec::run_one(script.job(), None);
        let o2 = exec::run_one(script.job(), Some(o1.trace.clone()));
        if o1.trace_hash != o2.trace_hash || o2.stats.replay_mismatches != 0 || o1.stats.decisions != o2.stats.decisions {
            bad += 1;
            println!("replay differs at index {i}: {:016x} vs {:016x}, {} mismatches", o1.trace_hash, o2.trace_hash, o2.stats.replay_mismatches);
        }
    }
    println!("selftest-replay {property}: {count} runs replayed from their traces, {bad} differ");
    (bad > 0) as i32
}

/// Stub-fidelity differential, simulated half: sequential fault-free scripts and the quiescent
/// snapshots the simulation observed, one JSON object per line (consumed by `nreal seqdiff`).
fn seqdiff(a: &Args) -> i32 {
    let seed = a.u64("--seed", 1);
    let start = a.u64("--start", 0);
    let count = a.u64("--count", 100);
    let out = a.get("--out").expect("--out");
    let mut lines = Vec::new();
    for i in start..start + count {
        let property = ["C07", "C12", "C06", "C19"][(i % 4) as usize];
        let (script, _) = generate(property, seed, i, false);
        let AnyScript::Nucleo(n) = script else { continue };
        let mut seq = world_nucleo::sequentialise(&n);
        world_nucleo::LAST_KILLERS.lock().unwrap().clear();
        let o = exec::run_one(Rc::new(seq.clone()), None);
        // the native half has no adversary: hand it the killer batch this run computed as an explicit one
        let mut killers = std::mem::take(&mut *world_nucleo::LAST_KILLERS.lock().unwrap()).into_iter();
        let cols = seq.columns as usize;
        for w in seq.writers.iter_mut() {
            for op in w.iter_mut() {
                if let world_nucleo::WOp::ExtendKiller { .. } = op {
                    let Some(ranks) = killers.next() else { continue };
                    *op = world_nucleo::WOp::Extend { items: world_nucleo::killer_texts(&ranks, cols), lie: world_nucleo::Lie::Honest, panic_at: None };
                }
            }
        }
        seq.writers.iter_mut().for_each(|w| w.retain(|op| !matches!(op, world_nucleo::WOp::ExtendKiller { .. })));
        if let Some(v) = o.violations.first() {
            println!("seqdiff: simulated sequential run {i} violates {} {}: {}", v.property, v.class, v.message);
            return 1;
        }
        let snaps: Vec<&String> = o.log.iter().filter(|l| l.contains("QUIESCENT ")).collect();
        lines.push(serde_json::to_string(&json!({"index": i, "script": seq, "quiescent": snaps})).unwrap());
    }
    std::fs::write(&out, lines.join("\n") + "\n").expect("write");
    println!("seqdiff: {} sequential scripts written to {out}", lines.len());
    0
}

fn main() {
    let args: Vec<String> = std::env::args().skip(1).collect();
    if args.is_empty() {
        eprintln!("usage: nsim batch|replay|minimise|determinism ...");
        std::process::exit(2);
    }
    exec::install_quiet_panic_hook();
    let a = Args(args);
    let code = match a.0[0].as_str() {
        "batch" => batch(&a),
        "replay" => replay(&a),
        "minimise" => minimise::main(&a.0[1..]),
        "determinism" => determinism(&a),
        "selftest-replay" => selftest_replay(&a),
        "seqdiff" => seqdiff(&a),
        "scripts" => {
            // generator reach: dump the scripts of a range of run indices, one JSON object per line
            let property = a.get("--property").unwrap_or_else(|| "C07".into());
            let seed: u64 = a.get("--seed").and_then(|x| x.parse().ok()).unwrap_or(20261002);
            let start: u64 = a.get("--start").and_then(|x| x.parse().ok()).unwrap_or(0);
            let count: u64 = a.get("--count").and_then(|x| x.parse().ok()).unwrap_or(1000);
            for i in start..start + count {
                let (script, focus) = generate(&property, seed, i, a.flag("--thorough"));
                println!("{}", serde_json::json!({"index": i, "focus": focus, "script": script}));
            }
            0
        }
        x => {
            eprintln!("unknown command {x}");
            2
        }
    };
    std::process::exit(code);
}
