//! Script generators (workload + fault plan), driven by the *script* PRNG stream only.
use nucleo_verif_rt::sim::SplitMix;

use crate::exec::SchedCfg;
use crate::world_nucleo::{Lie, NucleoScript, UiOp, WOp};

pub const ITEM_ALPHA: &[u8] = b"abAB$\\ -c/";
pub const PAT_ALPHA: &[u8] = b"abA$\\ !^'c";

pub fn pick<T: Clone>(rng: &mut SplitMix, xs: &[T]) -> T {
    xs[rng.below(xs.len() as u64) as usize].clone()
}
/// a few non-ASCII characters (case pairs, a normalisable letter, sigma and final sigma, a character outside the
/// normalisation blocks): one string in eight gets some of them mixed in, which sends it through
/// the code-point representation of the matcher instead of the ASCII one
pub const NON_ASCII: &[char] = &['é', 'É', 'ß', 'ä', 'Ä', 'ñ', '漢', 'σ', 'ς'];
pub fn rstr(rng: &mut SplitMix, alpha: &[u8], lo: u64, hi: u64) -> String {
    let n = lo + rng.below(hi - lo + 1);
    let exotic = n > 0 && rng.below(8) == 0;
    (0..n)
        .map(|_| {
            if exotic && rng.below(3) == 0 {
                NON_ASCII[rng.below(NON_ASCII.len() as u64) as usize]
            } else {
                alpha[rng.below(alpha.len() as u64) as usize] as char
            }
        })
        .collect()
}
fn weighted(rng: &mut SplitMix, w: &[u32]) -> usize {
    let total: u32 = w.iter().sum();
    let mut x = rng.below(total as u64) as u32;
    for (i, wi) in w.iter().enumerate() {
        if x < *wi {
            return i;
        }
        x -= wi;
    }
    w.len() - 1
}

/// One typed-text edit of a pattern column.
pub fn edit_text(rng: &mut SplitMix, text: &mut String) {
    match rng.below(20) {
        0..=10 => {
            // type one to three more characters; a third of the time one of the sequences whose
            // meaning depends on their position (markers, escapes) — the append heuristic of
            // MultiPattern::reparse has to get exactly these right
            if rng.below(3) == 0 {
                text.push_str(pick(rng, &["$", "$", "$", "\\", "\\$", " ", "\\ ", "!", "^", "'", "$$", "\\$$"]));
            } else {
                for _ in 0..1 + rng.below(3) {
                    if rng.below(16) == 0 {
                        text.push(NON_ASCII[rng.below(NON_ASCII.len() as u64) as usize]);
                    } else {
                        text.push(PAT_ALPHA[rng.below(PAT_ALPHA.len() as u64) as usize] as char);
                    }
                }
            }
        }
        11..=13 => {
            text.pop();
        }
        14..=15 => {
            // replace somewhere in the middle
            if !text.is_empty() {
                let mut chars: Vec<char> = text.chars().collect();
                let i = rng.below(chars.len() as u64) as usize;
                chars[i] = PAT_ALPHA[rng.below(PAT_ALPHA.len() as u64) as usize] as char;
                *text = chars.into_iter().collect();
            }
        }
        16 => text.clear(),
        _ => *text = rstr(rng, PAT_ALPHA, 0, 4),
    }
}

/// Item texts: random, or (a third of the time, when the script edits patterns) derived from
/// the pattern texts the script is going to type — haystacks that are "about" the needles are
/// what separates a pattern from its neighbours (`^\$` vs `^\$$`), random strings almost never do.
fn item_texts(rng: &mut SplitMix, cols: u32, pool: &[String]) -> Vec<String> {
    (0..cols)
        .map(|_| {
            if rng.below(14) == 0 {
                // a column the fill callback leaves empty (only negated atoms and the empty
                // pattern match it)
                String::new()
            } else if !pool.is_empty() && rng.below(3) == 0 {
                pick(rng, pool)
            } else {
                rstr(rng, ITEM_ALPHA, 1, 6)
            }
        })
        .collect()
}

/// Haystack candidates derived from one pattern text.
fn haystacks_for(text: &str, out: &mut Vec<String>) {
    for raw in text.split(' ') {
        if raw.is_empty() {
            continue;
        }
        let core = raw.trim_start_matches(['!', '^', '\'']).trim_end_matches('$');
        let unescaped = raw.replace("\\$", "$").replace("\\ ", " ").replace('\\', "");
        // the next three make the haystack non-ASCII (the matcher's char-slice paths) with the needle,
        // or its accented twin, at the very end
        let accented: String = {
            let mut cs: Vec<char> = core.chars().collect();
            if let Some(l) = cs.last_mut() {
                *l = match *l {
                    'a' => 'ä',
                    'A' => 'Ä',
                    'e' => 'é',
                    'c' => 'ç',
                    o => o,
                };
            }
            cs.into_iter().collect()
        };
        for c in [
            raw.to_string(),
            core.to_string(),
            unescaped.clone(),
            format!("{core}a"),
            format!("b{core}"),
            format!("{unescaped} "),
            format!(" {raw}"),
            format!("é{core}"),
            format!("漢 {unescaped}"),
            format!("b{accented}"),
            // exact atoms ignore surrounding whitespace: a haystack the exact kind accepts and the
            // substring kind has to find at its very end
            format!(" {accented}"),
            format!("  {core}"),
            // a lower-case letter that still has a case folding (final sigma folds to sigma): equal
            // to the needle only where the matcher folds lower-case letters too
            core.replace('σ', "ς"),
            format!("{}a", core.replace('σ', "ς")),
        ] {
            if !c.is_empty() && c.chars().count() <= 12 && !out.contains(&c) {
                out.push(c);
            }
        }
    }
}

#[allow(dead_code)]
struct Weights {
    // NewInj, CloneInj, DropInj, Spawn, Reparse, Tick, TickUntilIdle, Restart, OpenGate, CheckInj,
    // JoinWriters, Quiesce, Burn, DropNucleo
    ui: [u32; 14],
    writers: (u64, u64),
    big: u32,    // per mille: a writer op is a big honest batch (1100 / 2100 / 4100 items)
    hold: u32,   // per mille: a push is preceded by HoldNextFill
    faulty: u32, // per mille: a writer op is a lying / panicking one
    big_batches: bool,
}

fn weights(focus: &str) -> Weights {
    match focus {
        "C06" => Weights { big: 4, ui: [3, 1, 1, 14, 14, 30, 3, 3, 10, 1, 2, 3, 4, 0], writers: (2, 4), hold: 450, faulty: 60, big_batches: false },
        "C07" => Weights { big: 2, ui: [2, 1, 1, 8, 30, 26, 5, 4, 4, 1, 2, 10, 3, 0], writers: (0, 3), hold: 150, faulty: 0, big_batches: false },
        "C12" => Weights { big: 5, ui: [5, 2, 3, 12, 8, 28, 4, 18, 5, 3, 2, 4, 3, 0], writers: (1, 4), hold: 250, faulty: 40, big_batches: false },
        "C19" => Weights { big: 4, ui: [3, 1, 2, 12, 14, 36, 4, 6, 6, 1, 2, 4, 4, 0], writers: (1, 3), hold: 250, faulty: 30, big_batches: false },
        "C20" => Weights { big: 8, ui: [14, 10, 14, 10, 3, 14, 2, 10, 3, 10, 3, 1, 2, 1], writers: (0, 3), hold: 100, faulty: 0, big_batches: false },
        "C11" => Weights { big: 1, ui: [6, 3, 8, 14, 5, 16, 3, 10, 5, 2, 3, 2, 3, 3], writers: (1, 4), hold: 150, faulty: 450, big_batches: true },
        "C09" => Weights { big: 3, ui: [3, 1, 1, 14, 10, 30, 3, 4, 6, 1, 2, 3, 4, 0], writers: (2, 4), hold: 100, faulty: 20, big_batches: true },
        "C13" => Weights { big: 2, ui: [3, 1, 1, 12, 14, 40, 0, 4, 6, 1, 1, 0, 6, 0], writers: (0, 3), hold: 150, faulty: 0, big_batches: false },
        _ => Weights { big: 4, ui: [4, 2, 3, 12, 12, 30, 4, 6, 6, 2, 2, 4, 4, 1], writers: (0, 4), hold: 200, faulty: 80, big_batches: false },
    }
}

fn writer_ops(rng: &mut SplitMix, w: &Weights, cols: u32, gate: u32, cap: Option<u32>, pool: &[String]) -> Vec<WOp> {
    let n = 1 + rng.below(5);
    let mut ops = Vec::new();
    for _ in 0..n {
        if rng.below(1000) < w.hold as u64 {
            ops.push(WOp::HoldNextFill { gate });
        } else if rng.below(6) == 0 {
            ops.push(WOp::BurnNextFill { k: 1 + rng.below(12) as u32 });
        }
        let faulty = rng.below(1000) < w.faulty as u64;
        if rng.below(1000) < w.big as u64 {
            ops.push(WOp::ExtendBig { n: pick(rng, &[1100u32, 1100, 2100, 2100, 2100, 4100]), seed: rng.next() });
            continue;
        }
        match rng.below(10) {
            0..=4 => {
                if faulty && rng.below(2) == 0 {
                    ops.push(WOp::PushPanic { texts: item_texts(rng, cols, pool) })
                } else {
                    ops.push(WOp::Push { texts: item_texts(rng, cols, pool) })
                }
            }
            5..=7 => {
                // batch sizes are drawn relative to the bucket geometry when buckets are small
                let small_cap = cap.is_some_and(|c| c <= 100);
                let len = if w.big_batches && small_cap && rng.below(3) == 0 {
                    pick(rng, &[31u64, 32, 33, 40, 70, 100])
                } else {
                    pick(rng, &[1u64, 2, 2, 3, 5, 8])
                };
                let items: Vec<Vec<String>> = (0..len).map(|_| item_texts(rng, cols, pool)).collect();
                let (lie, panic_at) = if faulty {
                    match rng.below(5) {
                        0 => (Lie::Long(pick(rng, &[1u32, 3, 32, 70, 200])), None),
                        1 => (Lie::Short(1 + rng.below(len.min(3)) as u32), None),
                        2 => (Lie::Zero, None),
                        3 => (Lie::Honest, Some(pick(rng, &[0u32, 1, len as u32 / 2, len as u32 - 1]))),
                        _ => (Lie::Long(pick(rng, &[1u32, 40, 100])), Some(pick(rng, &[0u32, 1, len as u32 - 1]))),
                    }
                } else {
                    (Lie::Honest, None)
                };
                ops.push(WOp::Extend { items, lie, panic_at });
            }
            8 => ops.push(WOp::Get { idx: pick(rng, &[0u32, 1, 2, 5, 31, 32, 33, 95, 96, 200]) }),
            _ => match rng.below(3) {
                0 => ops.push(WOp::Count),
                1 => ops.push(WOp::Burn { k: 1 + rng.below(20) as u32 }),
                _ => ops.push(WOp::CloneAndDrop),
            },
        }
    }
    ops
}

/// History-centred variant for C07: items first, then a long sequence of typed edits with a
/// quiescence checkpoint (from-scratch comparison) after every single edit.
fn edit_history_script(rng: &mut SplitMix, thorough: bool) -> NucleoScript {
    let columns = pick(rng, &[1u32, 1, 2, 3]);
    let n_edits = if thorough { 10 + rng.below(20) } else { 6 + rng.below(12) };
    let mut texts = vec![String::new(); columns as usize];
    let mut pool: Vec<String> = Vec::new();
    let mut plan = Vec::new();
    for _ in 0..n_edits {
        let c = rng.below(columns as u64) as usize;
        edit_text(rng, &mut texts[c]);
        haystacks_for(&texts[c], &mut pool);
        plan.push((c, texts[c].clone()));
    }
    let n_items = 4 + rng.below(20);
    let items: Vec<Vec<String>> = (0..n_items)
        .map(|_| (0..columns).map(|_| if !pool.is_empty() && rng.below(2) == 0 { pick(rng, &pool) } else { rstr(rng, ITEM_ALPHA, 0, 6) }).collect())
        .collect();
    let mut items = items;
    if rng.below(40) == 0 && !pool.is_empty() {
        // "long twins": the same short text followed by paddings of very different, very large
        // lengths (around and above 65535): equal scores, so only the total-length tie-break
        // orders them — longest first in index order
        let head = pick(rng, &pool);
        for pad in [70_000usize, 65_540, 65_530, 300] {
            let mut cols: Vec<String> = (0..columns).map(|_| String::new()).collect();
            cols[0] = format!("{head}{}", "x".repeat(pad));
            items.push(cols);
        }
    }
    let mut writers = vec![vec![WOp::Extend { items, lie: Lie::Honest, panic_at: None }]];
    let mut ui = vec![UiOp::Spawn { w: 0, h: 0, move_handle: true }];
    if rng.below(2) == 0 {
        ui.push(UiOp::Quiesce);
    }
    if rng.below(20) == 0 {
        // "killer batch": the whole stream is one batch whose haystack lengths are, in index
        // order, an input that defeats the quicksort of the tree under test; matched with equal
        // scores first, so that the worker's sort runs into its heapsort fallback
        writers = vec![vec![WOp::ExtendKiller { n: pick(rng, &[40u32, 64, 96, 97, 150, 300]), seed: rng.next() }]];
        ui.push(UiOp::Reparse { col: 0, text: "a".into() });
        ui.push(UiOp::Quiesce);
    }
    for (k, (c, t)) in plan.into_iter().enumerate() {
        if rng.below(8) == 0 {
            // the user toggles case sensitivity / normalisation, possibly without touching the text
            ui.push(UiOp::ReparseOpts { col: c as u32, text: t, case: rng.below(3) as u8, norm: rng.below(2) as u8 });
        } else {
            ui.push(UiOp::Reparse { col: c as u32, text: t });
        }
        // mostly settle after every edit; sometimes let two edits share a tick, or tick without waiting
        match rng.below(8) {
            0 => {}
            1 => ui.push(UiOp::Tick { timeout: 0 }),
            _ => ui.push(UiOp::Quiesce),
        }
        if k % 5 == 4 && rng.below(3) == 0 {
            ui.push(UiOp::Restart { clear: rng.below(2) == 0 });
            ui.push(UiOp::Spawn { w: 0, h: 0, move_handle: true });
        }
    }
    ui.push(UiOp::Quiesce);
    // every full rescore of a killer batch is a few ten thousand scheduling points (the tie-break
    // looks both items up), a long edit history of them needs the budget of the big batches
    let killer = writers.iter().flatten().any(|o| matches!(o, WOp::ExtendKiller { .. }));
    let sched = SchedCfg::generate(rng, 400, 1, if killer { 60_000_000 } else { 400_000 });
    NucleoScript {
        weak: None,
        pool_threads: if rng.below(60) == 0 { 0 } else { pick(rng, &[1u32, 2, 3]) },
        columns,
        capacity: Some(pick(rng, &[0u32, 32, 100])),
        config: pick(rng, &[0u8, 0, 1, 2]),
        case: pick(rng, &[0u8, 0, 1, 2]),
        norm: pick(rng, &[0u8, 0, 1]),
        event_loop: false,
        gates: 1,
        ui,
        writers,
        sched,
    }
}

pub fn nucleo_script(rng: &mut SplitMix, focus: &str, thorough: bool) -> NucleoScript {
    if focus == "C07seq" {
        return edit_history_script(rng, thorough);
    }
    let w = weights(focus);
    let event_loop = focus == "C13";
    let pool_threads = pick(rng, &[1u32, 2, 2, 3, 4]);
    let columns = pick(rng, &[1u32, 1, 1, 2, 3]);
    let capacity = match rng.below(10) {
        0 | 1 => None,
        _ => Some(pick(rng, &[0u32, 1, 31, 32, 33, 100, 1024])),
    };
    let nw = w.writers.0 + rng.below(w.writers.1 - w.writers.0 + 1);
    let n_ops = if thorough { 8 + rng.below(24) } else { 6 + rng.below(14) };
    // the pattern texts this script is going to type are planned first: items are partly derived
    // from them
    let mut texts = vec![String::new(); columns as usize];
    let mut edit_plan: Vec<(usize, String)> = Vec::new();
    let mut pool: Vec<String> = Vec::new();
    for _ in 0..n_ops {
        let c = rng.below(columns as u64) as usize;
        edit_text(rng, &mut texts[c]);
        haystacks_for(&texts[c], &mut pool);
        edit_plan.push((c, texts[c].clone()));
    }
    let mut edit_plan = edit_plan.into_iter();
    let writers: Vec<Vec<WOp>> = (0..nw).map(|k| writer_ops(rng, &w, columns, k as u32, capacity, &pool)).collect();
    let mut ui = Vec::new();
    let mut spawned = 0u32;
    // most scripts start by getting writers going
    if nw > 0 && rng.below(4) != 0 {
        ui.push(UiOp::NewInjector);
        ui.push(UiOp::Spawn { w: 0, h: 0, move_handle: rng.below(2) == 0 });
        spawned = 1;
    }
    for _ in 0..n_ops {
        let op = match weighted(rng, &w.ui) {
            0 => UiOp::NewInjector,
            1 => UiOp::CloneInjector { h: rng.below(4) as u32 },
            2 => UiOp::DropInjector { h: rng.below(4) as u32 },
            3 => {
                if spawned as u64 >= nw {
                    UiOp::Tick { timeout: pick(rng, &[0u64, 0, 1, 10, 50]) }
                } else {
                    spawned += 1;
                    UiOp::Spawn { w: spawned - 1, h: rng.below(4) as u32, move_handle: rng.below(3) == 0 }
                }
            }
            4 => {
                let (c, t) = edit_plan.next().expect("one planned edit per op");
                if rng.below(10) == 0 {
                    UiOp::ReparseOpts { col: c as u32, text: t, case: rng.below(3) as u8, norm: rng.below(2) as u8 }
                } else {
                    UiOp::Reparse { col: c as u32, text: t }
                }
            }
            5 => UiOp::Tick { timeout: pick(rng, &[0u64, 0, 1, 10, 50]) },
            6 => UiOp::TickUntilIdle { max: 6 },
            7 => UiOp::Restart { clear: rng.below(2) == 0 },
            8 => UiOp::OpenGate { gate: rng.below(nw.max(1)) as u32 },
            9 => UiOp::CheckInjectors,
            10 => UiOp::JoinWriters,
            11 => UiOp::Quiesce,
            12 => {
                if rng.below(4) == 0 {
                    UiOp::UpdateConfigSame
                } else {
                    UiOp::Burn { k: 1 + rng.below(30) as u32 }
                }
            }
            _ => UiOp::DropNucleo,
        };
        ui.push(op);
    }
    if event_loop {
        ui.push(UiOp::OpenAllGates);
        for _ in 0..10 + rng.below(10) {
            ui.push(UiOp::WaitNotifyTick { timeout: pick(rng, &[0u64, 0, 0, 1, 10]) });
        }
    } else if rng.below(10) < 8 {
        ui.push(UiOp::Quiesce);
    }
    let est = pick(rng, &[150u64, 400, 1000, 2500]);
    let has_big = writers.iter().flatten().any(|o| matches!(o, WOp::ExtendBig { .. }));
    let sched = SchedCfg::generate(rng, est, nw as u32, if has_big { 60_000_000 } else { 400_000 });
    // a quarter of the runs of the worlds whose protocols depend on flag ordering use the
    // weak-memory mode (store buffers); the others stay sequentially consistent
    let weak = match focus {
        "C13" => (rng.below(3) == 0).then(|| pick(rng, &[0u32, 50, 300])),
        "C06" | "C12" | "C19" | "C07" | "mix" => (rng.below(6) == 0).then(|| pick(rng, &[0u32, 50, 300])),
        _ => None,
    };
    // rarely more pool threads than any machine has cores (per-thread state indexed by the pool
    // thread index must really be per thread)
    // 0 = "let the pool decide" (rayon's convention for num_threads(0); the simulated pool then has two)
    let pool_threads = if rng.below(40) == 0 { pick(rng, &[17u32, 33, 0]) } else { pool_threads };
    NucleoScript {
        weak,
        pool_threads,
        columns,
        capacity,
        config: pick(rng, &[0u8, 0, 0, 1, 2]),
        case: pick(rng, &[0u8, 0, 0, 1, 2]),
        norm: pick(rng, &[0u8, 0, 1]),
        event_loop,
        gates: nw as u32,
        ui,
        writers,
        sched,
    }
}
