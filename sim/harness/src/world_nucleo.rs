//! W-nucleo / W-eventloop: the whole high-level crate under simulation.
//!
//! One UI thread owns `Nucleo<Payload>`; writer threads push through injectors; the pool and the
//! clock are simulator threads. The script (UI operations, writer operations, fault plan) is fully
//! materialised before the run. Oracles for C06, C07, C11, C12, C13, C19, C20 (and the public-API
//! view of C08) are evaluated while the run proceeds.
use std::cell::RefCell;
use std::collections::BTreeSet;
use std::panic::{catch_unwind, resume_unwind, AssertUnwindSafe};
use std::rc::Rc;
use std::sync::Arc;

use nucleo::pattern::{CaseMatching, MultiPattern, Normalization};
use nucleo::{Config, Injector, Match, Matcher, Nucleo, Utf32String};
use nucleo_verif_rt::sim::{self, Event, Gate, Role, SplitMix, ViolationAbort};
use serde::{Deserialize, Serialize};

use crate::exec::{Job, Outcome, SchedCfg};
use crate::ledger::{self, Payload};
use crate::{alloc, gen};

pub const WATCHDOG_NS: u64 = 60_000_000_000;

#[derive(Serialize, Deserialize, Clone, Debug, PartialEq)]
pub enum Lie {
    Honest,
    /// reports `n` more than it yields (leaves reserved-but-never-published holes)
    Long(u32),
    /// reports `n` fewer than it yields (the library must panic, not write out of range)
    Short(u32),
    /// reports zero while non-empty
    Zero,
}

#[derive(Serialize, Deserialize, Clone, Debug, PartialEq)]
pub enum WOp {
    Push { texts: Vec<String> },
    Extend { items: Vec<Vec<String>>, lie: Lie, panic_at: Option<u32> },
    /// honest batch of `n` items with short texts derived from `seed` (crosses the shipped initial
    /// capacities: 2016 / 4064 entries are pre-allocated; thresholds inside the library)
    ExtendBig { n: u32, seed: u64 },
    /// one honest batch of `n` items `a`, `ax`, `axx`, ... whose lengths, in index order, are an
    /// input that sends the sort of the tree under test into its heapsort fallback
    /// (`world_sort::killer_ranks`): under a pattern that scores them equally only the length
    /// tie-break orders them
    ExtendKiller { n: u32, seed: u64 },
    /// the next fill callback of this writer parks on gate `gate` (F1)
    HoldNextFill { gate: u32 },
    /// the next fill callback burns `k` scheduling points
    BurnNextFill { k: u32 },
    /// push whose fill callback panics (F2)
    PushPanic { texts: Vec<String> },
    Get { idx: u32 },
    Count,
    Burn { k: u32 },
    CloneAndDrop,
}

#[derive(Serialize, Deserialize, Clone, Debug, PartialEq)]
pub enum UiOp {
    NewInjector,
    CloneInjector { h: u32 },
    DropInjector { h: u32 },
    /// start writer `w` (each writer script runs at most once) with a clone of handle `h`
    /// (or a fresh injector when the table is empty); `move_handle` gives the handle away
    Spawn { w: u32, h: u32, move_handle: bool },
    Reparse { col: u32, text: String },
    /// reparse with explicit case matching (0 smart, 1 ignore, 2 respect) and normalisation
    /// (0 smart, 1 never) for this column from now on; the append hint is only given when the
    /// settings did not change (loosening them is not a refinement of the previous pattern)
    ReparseOpts { col: u32, text: String, case: u8, norm: u8 },
    Tick { timeout: u64 },
    TickUntilIdle { max: u32 },
    Restart { clear: bool },
    OpenGate { gate: u32 },
    OpenAllGates,
    CheckInjectors,
    JoinWriters,
    /// quiescence checkpoint: open gates, join writers, tick until idle, compare with a
    /// from-scratch computation (C07)
    Quiesce,
    Burn { k: u32 },
    /// `update_config` with the configuration the matcher already has: nothing observable may
    /// change, but the call takes the worker lock (blocking) and writes every per-thread matcher
    UpdateConfigSame,
    DropNucleo,
    /// event-loop world: wait for a notification (or the watchdog), then tick
    WaitNotifyTick { timeout: u64 },
}

#[derive(Serialize, Deserialize, Clone, Debug)]
pub struct NucleoScript {
    /// weak-memory mode: Some(per-mille chance that a scheduling point drains one buffered store)
    #[serde(default)]
    pub weak: Option<u32>,
    pub pool_threads: u32,
    pub columns: u32,
    pub capacity: Option<u32>,
    pub config: u8,
    pub case: u8,
    pub norm: u8,
    pub event_loop: bool,
    pub gates: u32,
    pub ui: Vec<UiOp>,
    pub writers: Vec<Vec<WOp>>,
    pub sched: SchedCfg,
}

impl NucleoScript {
    fn config(&self) -> Config {
        match self.config {
            1 => Config::DEFAULT.match_paths(),
            2 => {
                let mut c = Config::DEFAULT;
                c.prefer_prefix = true;
                c
            }
            _ => Config::DEFAULT,
        }
    }
    fn case_of(c: u8) -> CaseMatching {
        match c {
            1 => CaseMatching::Ignore,
            2 => CaseMatching::Respect,
            _ => CaseMatching::Smart,
        }
    }
    fn norm_of(n: u8) -> Normalization {
        match n {
            1 => Normalization::Never,
            _ => Normalization::Smart,
        }
    }
    pub fn summary(&self) -> String {
        format!(
            "weak={:?} pool={} cols={} cap={:?} eventloop={} ui_ops={} writers={} strategy={} p_timer={}ppm step={}ns",
            self.weak,
            self.pool_threads,
            self.columns,
            self.capacity,
            self.event_loop,
            self.ui.len(),
            self.writers.len(),
            self.sched.strategy_name(),
            self.sched.p_timer_ppm,
            self.sched.step_cost_ns
        )
    }
    /// has any fault that can leave a reserved-but-never-published index (then `running` stays
    /// true forever and quiescence checkpoints are vacuous)
    pub fn may_leave_holes(&self) -> bool {
        self.writers.iter().flatten().any(|op| match op {
            WOp::PushPanic { .. } => true,
            WOp::Extend { lie, panic_at, .. } => !matches!(lie, Lie::Honest) || panic_at.is_some(),
            _ => false,
        })
    }
}

// ------------------------------------------------------------------------------------------------
// shared model (all simulated threads are coroutines of one OS thread)

#[derive(Default)]
struct StreamModel {
    /// indices reserved by harness calls (upper bound of the stream's index space)
    reserved: u32,
    /// fill callbacks started
    fill_started: u32,
    /// items whose push / extend call has returned (completed pushes)
    completed: u32,
    /// uids handed to push or yielded by a batch iterator (in any state)
    uids: Vec<u32>,
    /// indices returned by completed pushes with the uid stored there
    known: Vec<(u32, u32)>,
}
#[derive(Default)]
struct Model {
    streams: Vec<StreamModel>,
    next_uid: u32,
    notifies: u64,
    /// per writer: (handle ptr, uids being injected right now)
    in_push: Vec<Option<(usize, Vec<u32>)>>,
    /// per writer: pending fill behaviour
    hold_next: Vec<Option<u32>>,
    burn_next: Vec<u32>,
    columns: usize,
    check_notify_visibility: bool,
    /// heapsort-fallback count right after a killer batch was computed (reach accounting)
    killer_baseline: Option<u64>,
}
thread_local! {
    static MODEL: RefCell<Model> = RefCell::new(Model::default());
}
/// the rank sequences of the killer batches computed since this was last cleared (the stub-fidelity
/// differential turns them into explicit batches for the native half, which has no adversary)
pub static LAST_KILLERS: std::sync::Mutex<Vec<Vec<u32>>> = std::sync::Mutex::new(Vec::new());
pub fn killer_texts(ranks: &[u32], cols: usize) -> Vec<Vec<String>> {
    ranks
        .iter()
        .map(|r| {
            let mut t = vec![String::new(); cols];
            t[0] = format!("a{}", "x".repeat(*r as usize));
            t
        })
        .collect()
}
fn model<R>(f: impl FnOnce(&mut Model) -> R) -> R {
    MODEL.with(|m| f(&mut m.borrow_mut()))
}
fn stream(m: &mut Model, s: u32) -> &mut StreamModel {
    if m.streams.len() <= s as usize {
        m.streams.resize_with(s as usize + 1, Default::default);
    }
    &mut m.streams[s as usize]
}

/// `Rc` shared between coroutines of one OS thread
struct Sh<T>(Rc<T>);
impl<T> Clone for Sh<T> {
    fn clone(&self) -> Self {
        Sh(self.0.clone())
    }
}
unsafe impl<T> Send for Sh<T> {}
unsafe impl<T> Sync for Sh<T> {}
impl<T> std::ops::Deref for Sh<T> {
    type Target = T;
    fn deref(&self) -> &T {
        &self.0
    }
}

fn viol(prop: &str, class: &str, msg: String) -> ! {
    sim::violation(prop, class, msg)
}
/// oracle-level violation: aborts only when it counts for the property under check
fn soft(prop: &str, class: &str, msg: String) {
    sim::soft_violation(prop, class, msg)
}

// ------------------------------------------------------------------------------------------------
// reading items through the public API

fn columns_text(cols: &[Utf32String]) -> Vec<String> {
    cols.iter().map(|c| c.to_string()).collect()
}

/// Validate an item obtained from the library: canary, ledger, columns == f(value).
fn validate_item(it: &nucleo::Item<'_, Payload>, prop: &str, what: &str) -> (u32, u32) {
    if let Err(e) = it.data.validate() {
        viol(prop, "bad-item", format!("{what}: {e}"));
    }
    let want: Vec<&str> = it.data.texts.iter().map(|t| &**t).collect();
    let got = columns_text(it.matcher_columns);
    if got.len() != want.len() || got.iter().zip(&want).any(|(g, w)| g != w) {
        viol(
            prop,
            "bad-columns",
            format!("{what}: item uid={} has matcher columns {:?}, its fill callback wrote {:?}", it.data.uid, got, want),
        );
    }
    (it.data.uid, it.data.stream)
}

/// The documented composition of a multi-column pattern, computed column by column (independent
/// of `MultiPattern::score`): every column pattern must match its own column, scores add up.
fn reference_score(p: &MultiPattern, cols: &[Utf32String], m: &mut Matcher) -> Option<u32> {
    let mut total = 0u32;
    for (i, c) in cols.iter().enumerate() {
        total += p.column_pattern(i).score(c.slice(..), m)?;
    }
    Some(total)
}

fn total_len(cols: &[Utf32String]) -> u32 {
    cols.iter().map(|c| c.len() as u32).sum()
}

fn pattern_atoms(p: &MultiPattern, cols: usize) -> String {
    (0..cols).map(|c| format!("{:?}", p.column_pattern(c).atoms)).collect::<Vec<_>>().join(" | ")
}

// ------------------------------------------------------------------------------------------------
// the UI thread

struct Ui<'a> {
    sc: &'a NucleoScript,
    nucleo: Option<Nucleo<Payload>>,
    handles: Vec<Option<(Injector<Payload>, u32)>>,
    cur_stream: u32,
    texts: Vec<String>,
    /// (case, norm) each column was last parsed with
    opts: Vec<(u8, u8)>,
    refm: Matcher,
    gates: Vec<Sh<Gate>>,
    event: Sh<Event>,
    writers: Vec<Option<shuttle::thread::JoinHandle<()>>>,
    spawned: BTreeSet<u32>,
    /// copy taken at restart(false): (matches, item_count, pattern atoms, stream shown)
    frozen: Option<(Vec<Match>, u32, String)>,
    /// a restart happened and no snapshot of the new stream has been seen yet
    awaiting_new_stream: bool,
    pending_edit: bool,
    last_running: bool,
    holes_possible: bool,
    ticks: u32,
}

impl<'a> Ui<'a> {
    fn n(&self) -> &Nucleo<Payload> {
        self.nucleo.as_ref().unwrap()
    }

    fn set_ledger_model(&self) {
        let cur = self.nucleo.as_ref().map(|_| self.cur_stream);
        ledger::with(|l| l.current_stream = cur);
    }

    fn handle_mut(&mut self, h: u32) -> Option<usize> {
        let live: Vec<usize> = self.handles.iter().enumerate().filter(|(_, x)| x.is_some()).map(|(i, _)| i).collect();
        if live.is_empty() {
            None
        } else {
            Some(live[h as usize % live.len()])
        }
    }

    fn add_handle(&mut self, inj: Injector<Payload>, s: u32) {
        ledger::with(|l| {
            if l.live_handles.len() <= s as usize {
                l.live_handles.resize(s as usize + 1, 0);
            }
            l.live_handles[s as usize] += 1;
        });
        self.handles.push(Some((inj, s)));
    }

    fn check_injectors(&mut self, what: &str) {
        let Some(n) = &self.nucleo else { return };
        // model: live injector handles (held by the UI or by writer threads) of the current stream
        let want = ledger::with(|l| l.live_handles.get(self.cur_stream as usize).copied().unwrap_or(0));
        let got = n.active_injectors();
        sim::probe("oracle.c20");
        if got != want as usize {
            soft(
                "C20",
                "active-injectors",
                format!("{what}: active_injectors() = {got}, live injectors of the current stream {} = {want}", self.cur_stream),
            );
        }
    }

    fn snapshot_copy(&self) -> (Vec<Match>, u32, String) {
        let s = self.n().snapshot();
        (s.matches().to_vec(), s.item_count(), pattern_atoms(s.pattern(), self.sc.columns as usize))
    }

    /// C06 + C12 on the current snapshot.
    fn check_snapshot(&mut self, what: &str) {
        let _q = sim::quiet();
        sim::probe("oracle.c06");
        let cols = self.sc.columns as usize;
        let n = self.nucleo.as_ref().unwrap();
        let s = n.snapshot();
        let empty_pattern = s.pattern().is_empty();
        let mut seen = BTreeSet::new();
        let mut shown: Option<u32> = None;
        let mut prev: Option<(u32, u32, u32)> = None;
        if s.matched_item_count() as usize != s.matches().len() {
            soft("C06", "count", format!("{what}: matched_item_count {} != matches().len() {}", s.matched_item_count(), s.matches().len()));
        }
        for (k, m) in s.matches().iter().enumerate() {
            // clause 1: through the safe accessor first
            let Some(it) = s.get_item(m.idx) else {
                let p = if self.awaiting_new_stream || self.frozen.is_some() { "C06+C12" } else { "C06" };
                viol(p, "unpublished-match", format!("{what}: match #{k} refers to index {} which is not an initialised item of the snapshot's stream", m.idx));
            };
            let (uid, st) = validate_item(&it, "C06", what);
            match shown {
                None => shown = Some(st),
                Some(x) if x != st => viol("C12", "mixed-streams", format!("{what}: snapshot mixes items of stream {x} and stream {st}")),
                _ => {}
            }
            if !seen.insert(m.idx) {
                soft("C06", "duplicate", format!("{what}: index {} (uid {uid}) appears twice in the matches", m.idx));
            }
            // clause 3
            let sc = reference_score(s.pattern(), it.matcher_columns, &mut self.refm);
            if sc != Some(m.score) {
                soft(
                    "C06",
                    "score",
                    format!(
                        "{what}: match idx={} uid={uid} columns={:?} has score {} but the snapshot pattern [{}] scores it {:?}",
                        m.idx,
                        columns_text(it.matcher_columns),
                        m.score,
                        pattern_atoms(s.pattern(), cols),
                        sc
                    ),
                );
            }
            // clause 5
            let len = total_len(it.matcher_columns);
            if let Some(p) = prev {
                let ok = if empty_pattern {
                    p.2 < m.idx
                } else {
                    (std::cmp::Reverse(p.0), p.1, p.2) < (std::cmp::Reverse(m.score), len, m.idx)
                };
                if !ok {
                    soft(
                        "C06",
                        "order",
                        format!("{what}: matches out of order at #{k}: (score,len,idx) {:?} then {:?} (empty pattern: {empty_pattern})", p, (m.score, len, m.idx)),
                    );
                }
            }
            prev = Some((m.score, len, m.idx));
            // the unchecked accessors must agree
            let it2 = s.get_matched_item(k as u32).unwrap();
            if !std::ptr::eq(it2.data, it.data) {
                soft("C06", "accessor", format!("{what}: get_matched_item({k}) and get_item({}) disagree", m.idx));
            }
        }
        let mi = s.matched_items(..).len();
        if mi != s.matches().len() {
            soft("C06", "count", format!("{what}: matched_items(..) yields {mi} items for {} matches", s.matches().len()));
        }
        // the range accessors agree with matches(): every bound kind, forwards and backwards
        let len = s.matches().len() as u32;
        if len > 0 {
            let (a, b) = (len / 3, (2 * len / 3).max(len / 3));
            let want: Vec<*const Payload> = s.matches()[a as usize..b as usize].iter().map(|m| s.get_item(m.idx).map_or(std::ptr::null(), |it| it.data as *const Payload)).collect();
            let got: Vec<*const Payload> = s.matched_items(a..b).map(|it| it.data as *const Payload).collect();
            let mut got_rev: Vec<*const Payload> = s.matched_items(a..b).rev().map(|it| it.data as *const Payload).collect();
            got_rev.reverse();
            let got_incl: Vec<*const Payload> = if b > a { s.matched_items(a..=b - 1).map(|it| it.data as *const Payload).collect() } else { Vec::new() };
            let tail = s.matched_items(b..).len() as u32;
            if got != want || got_rev != want || got_incl != want || tail != len - b {
                soft("C06", "accessor", format!("{what}: matched_items({a}..{b}) / ({a}..={}) / ({b}..) disagree with matches() (len {len})", b.wrapping_sub(1)));
            }
        }
        // a reversed range inside the bounds is a caller bug the safe API has to answer with a
        // panic (or nothing), never with memory it does not own
        if len >= 2 {
            let r = expected_panic(|| s.matched_items(len - 1..len / 2).len());
            if let Ok(n) = r {
                if n != 0 {
                    soft("C06", "accessor", format!("{what}: matched_items({}..{}) (reversed) yields {n} items", len - 1, len / 2));
                }
            }
        }
        // documented: "Panics if range has a range bound that is larger than the matched item count"
        if expected_panic(|| s.matched_items(0..len + 1).len()).is_ok() {
            soft("C06", "accessor", format!("{what}: matched_items(0..{}) did not panic although there are only {len} matches", len + 1));
        }
        // index look-ups answer None or an item for every u32, also the top 32 values no item can
        // ever be assigned ("Both smaller and larger indices may return None")
        for far in [u32::MAX, u32::MAX - 31, u32::MAX - 32] {
            match expected_panic(|| s.get_item(far).is_some()) {
                Ok(false) => {}
                Ok(true) => soft("C06", "accessor", format!("{what}: get_item({far}) returned an item")),
                Err(m) => soft("C06", "accessor", format!("{what}: get_item({far}) panicked: {m}")),
            }
        }
        if s.get_matched_item(u32::MAX).is_some() {
            soft("C06", "accessor", format!("{what}: get_matched_item(u32::MAX) returned an item"));
        }
        if s.get_matched_item(len).is_some() {
            soft("C06", "accessor", format!("{what}: get_matched_item({len}) returned an item, there are only {len} matches"));
        }
        // clause 4: M ⊆ P ⊆ initialised items of the stream, |P| = item_count, matching members of
        // P are exactly M  ⟹  item_count + #(initialised matching items not in M) ≤ #initialised
        let candidates: Vec<u32> = match shown {
            Some(x) => vec![x],
            None => (0..=self.cur_stream).rev().collect(),
        };
        let mut ok = false;
        let mut detail = String::new();
        for st in candidates {
            let reserved = model(|m| stream(m, st).reserved);
            let mut init = 0u32;
            let mut missing = 0u32;
            let mut wrong_stream = false;
            for i in 0..reserved {
                if let Some(it) = s.get_item(i) {
                    if it.data.validate().is_err() || it.data.stream != st {
                        wrong_stream = true;
                        break;
                    }
                    init += 1;
                    if !seen.contains(&i) && reference_score(s.pattern(), it.matcher_columns, &mut self.refm).is_some() {
                        missing += 1;
                    }
                }
            }
            if wrong_stream {
                continue;
            }
            if (s.matches().len() as u32) <= s.item_count() && s.item_count() + missing <= init {
                ok = true;
                break;
            }
            detail = format!("stream {st}: item_count={} matches={} initialised={init} matching-but-not-reported={missing}", s.item_count(), s.matches().len());
        }
        if !ok {
            soft("C06", "processed-set", format!("{what}: no set of processed items explains the snapshot ({detail})"));
        }
        // C12: which stream is shown
        if let Some(x) = shown {
            if x > self.cur_stream {
                soft("C12", "future-stream", format!("{what}: snapshot shows stream {x} > current {}", self.cur_stream));
            }
            if x == self.cur_stream {
                self.awaiting_new_stream = false;
                self.frozen = None;
            } else if !self.awaiting_new_stream {
                soft("C12", "old-stream", format!("{what}: snapshot shows items of stream {x} although a snapshot of the current stream {} was already produced", self.cur_stream));
            }
        }
        ledger::with(|l| l.snapshot_stream = shown);
        // C12: after restart(false) the snapshot stays exactly as it was until it is replaced
        if let Some((fm, fic, fpat)) = &self.frozen {
            let still_old = shown.is_some_and(|x| x != self.cur_stream);
            if still_old {
                let now = (s.matches(), s.item_count(), pattern_atoms(s.pattern(), cols));
                if now.0 != &fm[..] || now.1 != *fic || &now.2 != fpat {
                    soft("C12", "frozen-changed", format!("{what}: the pre-restart snapshot changed while it was still shown"));
                }
            }
        }
    }

    fn tick(&mut self, timeout: u64, what: &str) -> nucleo::Status {
        let cols = self.sc.columns as usize;
        let before = self.snapshot_copy();
        let completed_before = model(|m| stream(m, self.cur_stream).completed);
        let seq0 = sim::seq();
        // during a tick the library may legitimately replace what the snapshot can reach
        ledger::with(|l| l.snapshot_stream = None);
        let st = self.nucleo.as_mut().unwrap().tick(timeout);
        self.ticks += 1;
        self.pending_edit = false;
        self.last_running = st.running;
        sim::probe("ui.tick");
        if st.running {
            sim::probe("ui.tick.running");
        }
        if st.changed {
            sim::probe("ui.tick.changed");
        }
        let after = self.snapshot_copy();
        sim::log(format!(
            "ui tick({timeout}) [{what}] -> changed={} running={} item_count={} matches={} (started at seq {seq0})",
            st.changed,
            st.running,
            after.1,
            after.0.len()
        ));
        // C19
        sim::probe("oracle.c19");
        if !st.changed && before != after {
            soft(
                "C19",
                "changed-false",
                format!(
                    "{what}: tick({timeout}) reported changed=false but the snapshot differs: before (matches {}, item_count {}, pattern {}) after (matches {}, item_count {}, pattern {})",
                    before.0.len(), before.1, before.2, after.0.len(), after.1, after.2
                ),
            );
        }
        if !st.running {
            if after.1 < completed_before {
                soft(
                    "C19",
                    "running-false-count",
                    format!("{what}: tick({timeout}) reported running=false but item_count {} < {} pushes of stream {} completed before the call", after.1, completed_before, self.cur_stream),
                );
            }
            let cur = pattern_atoms(&self.n().pattern, cols);
            if cur != after.2 {
                soft("C19", "running-false-pattern", format!("{what}: tick({timeout}) reported running=false but the snapshot pattern [{}] is not the current pattern [{cur}]", after.2));
            }
        }
        self.check_snapshot(what);
        self.check_injectors(what);
        st
    }

    fn restart(&mut self, clear: bool) {
        let cols = self.sc.columns as usize;
        let before = self.snapshot_copy();
        // what the snapshot resolves a few indices to (restart(false) must not change that:
        // "stays exactly as it was, and remains safe to read")
        let sample: Vec<(u32, Option<u32>)> = {
            let _q = sim::quiet();
            let s = self.n().snapshot();
            (0..24u32).map(|i| (i, s.get_item(i).map(|it| validate_item(&it, "C12", "before restart").0))).collect()
        };
        // the old stream stops being the current one inside the call
        self.cur_stream += 1;
        self.set_ledger_model();
        if clear {
            ledger::with(|l| l.snapshot_stream = None);
        }
        self.nucleo.as_mut().unwrap().restart(clear);
        sim::fault("F6.restart");
        self.pending_edit = true;
        let s = self.n().snapshot();
        sim::log(format!("ui restart({clear}) -> stream {}", self.cur_stream));
        if clear {
            if !s.matches().is_empty() || s.item_count() != 0 {
                soft("C12", "clear", format!("restart(true) left {} matches / item_count {} in the snapshot", s.matches().len(), s.item_count()));
            }
            self.frozen = None;
            self.awaiting_new_stream = false;
            ledger::with(|l| l.snapshot_stream = None);
        } else {
            let now = (s.matches().to_vec(), s.item_count(), pattern_atoms(s.pattern(), cols));
            if now != before {
                soft("C12", "restart-changed", "restart(false) changed the snapshot".to_string());
            }
            {
                let _q = sim::quiet();
                for (i, was) in &sample {
                    let is = s.get_item(*i).map(|it| validate_item(&it, "C12", "after restart(false)").0);
                    // an old writer may have published the index meanwhile, nothing else may change
                    if was.is_some() && is != *was {
                        soft("C12", "restart-changed", format!("restart(false): index {i} of the snapshot resolved to uid {was:?} before the call and to {is:?} after it"));
                    }
                }
            }
            if self.frozen.is_none() {
                self.frozen = Some(before);
            }
            self.awaiting_new_stream = true;
        }
        self.check_snapshot("after restart");
        self.check_injectors("after restart");
    }

    fn open_all_gates(&self) {
        for g in &self.gates {
            g.open();
        }
    }

    fn join_writers(&mut self) {
        sim::flush_mine();
        self.open_all_gates();
        for w in self.writers.iter_mut() {
            if let Some(h) = w.take() {
                let _ = h.join();
            }
        }
    }

    /// tick until the worker is idle; `None` = bound hit
    fn tick_until_idle(&mut self, max: u32, what: &str) -> Option<u32> {
        // a few ticks under the run's timer probability, then pure discrete-event time so that
        // every later tick really waits for the run it is behind
        for k in 0..max {
            if k == 3 {
                sim::set_des_only(true);
            }
            let timeout = [0u64, 10, 10, 50][(k as usize).min(3)];
            let st = self.tick(timeout, what);
            if !st.running {
                sim::set_des_only(false);
                return Some(k + 1);
            }
        }
        sim::set_des_only(false);
        None
    }

    /// C07 at a quiescent point
    fn quiesce(&mut self) {
        if self.nucleo.is_none() {
            return;
        }
        self.join_writers();
        let cols = self.sc.columns as usize;
        let Some(_k) = self.tick_until_idle(48, "quiesce") else {
            if self.holes_possible {
                sim::probe("quiesce.vacuous");
                return;
            }
            soft("C07", "no-quiescence", "no injector is active, no fault left a hole, but 48 ticks never reported running=false".to_string());
            return;
        };
        // precondition of C07: no injector active any more — writers are joined; UI-held handles
        // do not inject
        sim::probe("oracle.c07");
        let _q = sim::quiet();
        let n = self.nucleo.as_ref().unwrap();
        let inj = n.injector();
        let total = inj.injected_items();
        let mut items = Vec::new();
        for i in 0..total {
            match inj.get(i) {
                Some(it) => {
                    validate_item(&it, "C08", "quiescent scan");
                    if it.data.stream != self.cur_stream {
                        viol("C12", "foreign-item", format!("index {i} of the current stream {} holds an item of stream {}", self.cur_stream, it.data.stream));
                    }
                    items.push((i, it));
                }
                None => {
                    if !self.holes_possible {
                        viol("C08", "hole", format!("index {i} < injected_items()={total} is empty although every push completed and no fault was injected"));
                    }
                    // holes: running stays true forever, we cannot be here
                    viol("C19", "running-false-hole", format!("tick reported running=false although index {i} < {total} was never published"));
                }
            }
        }
        let mut fresh = MultiPattern::new(cols);
        for (c, t) in self.texts.iter().enumerate() {
            fresh.reparse(c, t, NucleoScript::case_of(self.opts[c].0), NucleoScript::norm_of(self.opts[c].1), false);
        }
        let mut want: Vec<(u32, u32, u32)> = items
            .iter()
            .filter_map(|(i, it)| reference_score(&fresh, it.matcher_columns, &mut self.refm).map(|s| (s, total_len(it.matcher_columns), *i)))
            .collect();
        if !fresh.is_empty() {
            want.sort_by(|a, b| b.0.cmp(&a.0).then(a.1.cmp(&b.1)).then(a.2.cmp(&b.2)));
        }
        let want: Vec<(u32, u32)> = want.into_iter().map(|(s, _, i)| (i, s)).collect();
        let s = n.snapshot();
        let got: Vec<(u32, u32)> = s.matches().iter().map(|m| (m.idx, m.score)).collect();
        if s.item_count() != total {
            soft("C07", "item-count", format!("quiescent snapshot has item_count {} but {total} items were injected into the stream", s.item_count()));
        }
        let snap_atoms = pattern_atoms(s.pattern(), cols);
        let fresh_atoms = pattern_atoms(&fresh, cols);
        if snap_atoms != fresh_atoms {
            soft("C07", "pattern", format!("quiescent snapshot pattern [{snap_atoms}] differs from a fresh parse [{fresh_atoms}] of {:?}", self.texts));
        }
        sim::log(format!("QUIESCENT item_count={} matches={:?}", s.item_count(), got));
        if got != want {
            let first = got.iter().zip(&want).position(|(a, b)| a != b).unwrap_or(got.len().min(want.len()));
            soft(
                "C07",
                "matches",
                format!(
                    "quiescent snapshot differs from the from-scratch result for pattern {:?}: {} matches vs {} expected, first difference at #{first}: got {:?} want {:?}",
                    self.texts,
                    got.len(),
                    want.len(),
                    got.get(first),
                    want.get(first)
                ),
            );
        }
        drop(inj);
    }

    fn drop_nucleo(&mut self) {
        if let Some(n) = self.nucleo.take() {
            sim::fault("F7.drop_nucleo");
            // the snapshot and the current-stream reference die with the Nucleo (its pool threads
            // may hold the worker for a little longer)
            ledger::with(|l| {
                l.current_stream = None;
                l.snapshot_stream = None;
            });
            drop(n);
            sim::log("ui dropped Nucleo".to_string());
            // C11 (mechanism "Nucleo::drop waits for the worker"): every job that tick handed to
            // the pool holds the worker lock until its run has ended, and drop takes that lock
            let (spawned, ended) = sim::with(|s| (s.probes.get("tick.spawn").copied().unwrap_or(0), s.probes.get("run.end").copied().unwrap_or(0)));
            if spawned != ended {
                soft(
                    "C11",
                    "drop-did-not-wait",
                    format!("Nucleo::drop returned while a background run was still queued or running ({spawned} runs spawned, {ended} ended): the worker and the item stream it holds outlive the last handle"),
                );
            }
        }
    }

    fn run_op(&mut self, op: &UiOp) {
        match op {
            UiOp::NewInjector => {
                if let Some(n) = &self.nucleo {
                    let inj = n.injector();
                    let s = self.cur_stream;
                    self.add_handle(inj, s);
                    self.check_injectors("after injector()");
                }
            }
            UiOp::CloneInjector { h } => {
                if let Some(i) = self.handle_mut(*h) {
                    let (inj, s) = self.handles[i].as_ref().map(|(a, b)| (a.clone(), *b)).unwrap();
                    self.add_handle(inj, s);
                    self.check_injectors("after clone");
                }
            }
            UiOp::DropInjector { h } => {
                if let Some(i) = self.handle_mut(*h) {
                    let (inj, s) = self.handles[i].take().unwrap();
                    ledger::with(|l| l.live_handles[s as usize] -= 1);
                    drop(inj);
                    sim::fault("F7.drop_injector");
                    self.check_injectors("after drop");
                }
            }
            UiOp::Spawn { w, h, move_handle } => {
                let w = *w as usize % self.sc.writers.len().max(1);
                if self.sc.writers.is_empty() || self.spawned.contains(&(w as u32)) {
                    return;
                }
                let got = match self.handle_mut(*h) {
                    Some(i) if *move_handle => self.handles[i].take(),
                    Some(i) => {
                        let (inj, s) = self.handles[i].as_ref().map(|(a, b)| (a.clone(), *b)).unwrap();
                        ledger::with(|l| l.live_handles[s as usize] += 1);
                        Some((inj, s))
                    }
                    None => match &self.nucleo {
                        Some(n) => {
                            let s = self.cur_stream;
                            ledger::with(|l| {
                                if l.live_handles.len() <= s as usize {
                                    l.live_handles.resize(s as usize + 1, 0);
                                }
                                l.live_handles[s as usize] += 1
                            });
                            Some((n.injector(), s))
                        }
                        None => None,
                    },
                };
                let Some((inj, s)) = got else { return };
                if s != self.cur_stream {
                    sim::fault("F6.stale_stream_writer");
                }
                self.spawned.insert(w as u32);
                let ops = self.sc.writers[w].clone();
                let gates = self.gates.clone();
                let tok = nucleo_verif_rt::hb::release_token();
                let jh = shuttle::thread::spawn(move || {
                    sim::set_role(Role::Writer(w as u8));
                    nucleo_verif_rt::hb::acquire_token(&tok);
                    writer_main(w, inj, s, ops, gates);
                    sim::flush_mine();
                });
                if self.writers.len() <= w {
                    self.writers.resize_with(w + 1, || None);
                }
                self.writers[w] = Some(jh);
            }
            UiOp::Reparse { .. } | UiOp::ReparseOpts { .. } => {
                let (col, text, opts) = match op {
                    UiOp::Reparse { col, text } => (col, text, None),
                    UiOp::ReparseOpts { col, text, case, norm } => (col, text, Some((*case, *norm))),
                    _ => unreachable!(),
                };
                if let Some(n) = &mut self.nucleo {
                    let c = *col as usize % self.sc.columns as usize;
                    let new_opts = opts.unwrap_or(self.opts[c]);
                    // truthful append hint: the previous text is a prefix of the new one and the
                    // parse settings are the same
                    let append = text.starts_with(&self.texts[c]) && new_opts == self.opts[c];
                    n.pattern.reparse(c, text, NucleoScript::case_of(new_opts.0), NucleoScript::norm_of(new_opts.1), append);
                    sim::log(format!("ui reparse col {c} {:?} -> {:?} opts {:?} -> {:?} append={append}", self.texts[c], text, self.opts[c], new_opts));
                    self.texts[c] = text.clone();
                    self.opts[c] = new_opts;
                    self.pending_edit = true;
                    sim::fault("F5.edit");
                }
            }
            UiOp::Tick { timeout } => {
                if self.nucleo.is_some() {
                    if self.sc.event_loop && !(self.pending_edit || self.event.take()) {
                        // an event loop only ticks after its own edit or when notified
                        sim::probe("eventloop.tick_skipped");
                        return;
                    }
                    self.event.take();
                    self.tick(*timeout, "tick");
                }
            }
            UiOp::WaitNotifyTick { timeout } => {
                if self.nucleo.is_some() {
                    self.wait_notify_tick(*timeout);
                }
            }
            UiOp::TickUntilIdle { max } => {
                if self.nucleo.is_some() && !self.sc.event_loop {
                    if self.tick_until_idle(*max, "tick-until-idle").is_none() {
                        sim::probe("tick_until_idle.bound");
                    }
                }
            }
            UiOp::Restart { clear } => {
                if self.nucleo.is_some() {
                    self.restart(*clear);
                }
            }
            UiOp::OpenGate { gate } => {
                if !self.gates.is_empty() {
                    self.gates[*gate as usize % self.gates.len()].open();
                }
            }
            UiOp::OpenAllGates => self.open_all_gates(),
            UiOp::CheckInjectors => self.check_injectors("check"),
            UiOp::JoinWriters => {
                self.join_writers();
                self.check_injectors("after join");
            }
            UiOp::Quiesce => {
                if !self.sc.event_loop {
                    self.quiesce()
                }
            }
            UiOp::UpdateConfigSame => {
                let cfg = self.sc.config();
                if let Some(n) = self.nucleo.as_mut() {
                    sim::log("ui update_config(same)".to_string());
                    n.update_config(cfg);
                }
            }
            UiOp::Burn { k } => {
                for _ in 0..*k {
                    nucleo_verif_rt::point("ui.burn");
                }
            }
            UiOp::DropNucleo => self.drop_nucleo(),
        }
    }

    /// Event loop step (C13): if the last tick reported `running`, a notification must arrive
    /// before the watchdog — a long timer, which fires only once nothing else can run.
    fn wait_notify_tick(&mut self, timeout: u64) {
        if self.pending_edit {
            self.event.take();
            self.tick(timeout, "eventloop edit");
            return;
        }
        if !self.last_running && !self.event.is_set() {
            // nothing outstanding: an event loop would sleep until the user does something
            sim::probe("eventloop.idle");
            return;
        }
        sim::probe("eventloop.wait");
        let t0 = sim::now();
        if !self.event.wait(WATCHDOG_NS) {
            viol(
                "C13",
                "lost-wakeup",
                format!(
                    "the last tick reported running=true, the event loop waited for a notification and none arrived: {} simulated seconds passed and no other thread can run (notifications so far: {})",
                    (sim::now() - t0) / 1_000_000_000,
                    self.event.sets.get()
                ),
            );
        }
        self.tick(timeout, "eventloop notified");
    }
}

// ------------------------------------------------------------------------------------------------
// writer threads

struct LyingIter {
    items: std::vec::IntoIter<Payload>,
    reported: usize,
}
impl Iterator for LyingIter {
    type Item = Payload;
    fn next(&mut self) -> Option<Payload> {
        self.items.next()
    }
}
impl ExactSizeIterator for LyingIter {
    fn len(&self) -> usize {
        self.reported
    }
}

fn new_payload(stream_id: u32, texts: &[String], cols: usize) -> Payload {
    let uid = model(|m| {
        let u = m.next_uid;
        m.next_uid += 1;
        stream(m, stream_id).uids.push(u);
        u
    });
    let texts: Vec<Box<str>> = (0..cols).map(|c| texts.get(c).cloned().unwrap_or_default().into_boxed_str()).collect();
    Payload::new(uid, stream_id, texts)
}

/// what a fill callback does besides filling
fn fill(w: usize, gates: &[Sh<Gate>], item: &Payload, cols: &mut [Utf32String], panic_here: bool) {
    let (hold, burn) = model(|m| {
        stream(m, item.stream).fill_started += 1;
        (m.hold_next[w].take(), std::mem::take(&mut m.burn_next[w]))
    });
    nucleo_verif_rt::point("fill.begin");
    if let Some(g) = hold {
        if !gates.is_empty() {
            sim::fault("F1.writer_held_in_flight");
            gates[g as usize % gates.len()].wait();
        }
    }
    for _ in 0..burn {
        nucleo_verif_rt::point("fill.burn");
    }
    // user code writes into library-owned memory: report it to the happens-before monitor
    nucleo_verif_rt::hb::plain_write(cols.as_ptr() as usize, "fill callback (writes the matcher columns)");
    // real fill callbacks write the columns one by one; a panic may strike in between
    let ncols = cols.len();
    for (c, col) in cols.iter_mut().enumerate() {
        if panic_here && c == ncols / 2 {
            sim::fault("F2.fill_panic");
            panic!("injected fill panic");
        }
        let t: &str = &item.texts[c];
        *col = alloc::tracked(|| Utf32String::from(t));
    }
    nucleo_verif_rt::hb::plain_write(cols.as_ptr() as usize, "fill callback (wrote the matcher columns)");
    ledger::mark_stored(item.uid);
    nucleo_verif_rt::point("fill.end");
}

pub fn expected_panic<R>(f: impl FnOnce() -> R) -> Result<R, String> {
    match catch_unwind(AssertUnwindSafe(f)) {
        Ok(r) => Ok(r),
        Err(p) => {
            if p.is::<ViolationAbort>() {
                resume_unwind(p)
            }
            let _ = crate::exec::last_panic_location();
            Err(p.downcast_ref::<String>().cloned().or_else(|| p.downcast_ref::<&str>().map(|s| s.to_string())).unwrap_or_default())
        }
    }
}

fn writer_main(w: usize, inj: Injector<Payload>, s: u32, ops: Vec<WOp>, gates: Vec<Sh<Gate>>) {
    let cols = model(|m| m.columns);
    let mut extra: Vec<Injector<Payload>> = Vec::new();
    for op in &ops {
        match op {
            WOp::Push { texts } | WOp::PushPanic { texts } => {
                let panics = matches!(op, WOp::PushPanic { .. });
                let p = new_payload(s, texts, cols);
                let uid = p.uid;
                model(|m| {
                    stream(m, s).reserved += 1;
                    m.in_push[w] = Some((&inj as *const _ as usize, vec![uid]));
                });
                let r = expected_panic(|| inj.push(p, |it, c| fill(w, &gates, it, c, panics)));
                model(|m| m.in_push[w] = None);
                match r {
                    Ok(idx) => {
                        if panics {
                            viol("C11", "panic-swallowed", format!("push of uid {uid} returned although its fill callback panicked"));
                        }
                        model(|m| {
                            let st = stream(m, s);
                            st.completed += 1;
                            st.known.push((idx, uid));
                        });
                        sim::log(format!("writer{w} push uid={uid} stream={s} -> idx {idx}"));
                    }
                    Err(msg) => {
                        if !panics {
                            viol("*", "crash", format!("push of uid {uid} panicked: {msg}"));
                        }
                        sim::log(format!("writer{w} push uid={uid} stream={s} fill panicked"));
                    }
                }
            }
            WOp::Extend { .. } | WOp::ExtendBig { .. } | WOp::ExtendKiller { .. } => {
                let big;
                let (items, lie, panic_at) = match op {
                    WOp::Extend { items, lie, panic_at } => (items, lie, panic_at),
                    WOp::ExtendKiller { n, seed } => {
                        let ranks = {
                            let _q = sim::quiet();
                            crate::world_sort::killer_ranks(*n as usize, *seed)
                        };
                        big = killer_texts(&ranks, cols);
                        LAST_KILLERS.lock().unwrap().push(ranks.clone());
                        let hs = sim::with(|s| s.probes.get("sort.heapsort").copied().unwrap_or(0));
                        model(|m| m.killer_baseline = Some(hs));
                        sim::probe("writer.extend_killer");
                        (&big, &Lie::Honest, &None)
                    }
                    WOp::ExtendBig { n, seed } => {
                        let mut r = SplitMix::derive(*seed, 3);
                        big = (0..*n).map(|_| (0..cols).map(|_| gen::rstr(&mut r, gen::ITEM_ALPHA, 1, 3)).collect::<Vec<String>>()).collect::<Vec<_>>();
                        sim::probe("writer.extend_big");
                        (&big, &Lie::Honest, &None)
                    }
                    _ => unreachable!(),
                };
                let payloads: Vec<Payload> = items.iter().map(|t| new_payload(s, t, cols)).collect();
                let uids: Vec<u32> = payloads.iter().map(|p| p.uid).collect();
                let n = payloads.len();
                let reported = match lie {
                    Lie::Honest => n,
                    Lie::Long(k) => n + *k as usize,
                    Lie::Short(k) => n.saturating_sub(*k as usize),
                    Lie::Zero => 0,
                };
                if reported != n {
                    sim::fault("F3.lying_iterator");
                }
                let must_panic = reported < n || panic_at.is_some_and(|k| (k as usize) < n.min(reported));
                // reserved index space: the library reserves `reported` indices (0 when it
                // reports zero and panics before reserving)
                model(|m| {
                    stream(m, s).reserved += if reported == 0 { 0 } else { reported as u32 };
                    m.in_push[w] = Some((&inj as *const _ as usize, uids.clone()));
                });
                let it = LyingIter { items: payloads.into_iter(), reported };
                let k = std::cell::Cell::new(0u32);
                let r = expected_panic(|| {
                    inj.extend(it, |item, c| {
                        let i = k.get();
                        k.set(i + 1);
                        fill(w, &gates, item, c, *panic_at == Some(i));
                    })
                });
                model(|m| m.in_push[w] = None);
                match r {
                    Ok(()) => {
                        if must_panic {
                            viol("C08", "lying-iterator-accepted", format!("extend with {n} items reporting {reported} (panic_at {panic_at:?}) returned normally"));
                        }
                        model(|m| stream(m, s).completed += n as u32);
                        sim::log(format!("writer{w} extend uids={uids:?} stream={s} reported={reported} ok"));
                    }
                    Err(msg) => {
                        if !must_panic {
                            viol("*", "crash", format!("extend of {n} items reporting {reported} panicked: {msg}"));
                        }
                        sim::log(format!("writer{w} extend uids={uids:?} stream={s} reported={reported} panicked ({msg})"));
                    }
                }
            }
            WOp::HoldNextFill { gate } => model(|m| m.hold_next[w] = Some(*gate)),
            WOp::BurnNextFill { k } => model(|m| m.burn_next[w] = *k),
            WOp::Get { idx } => {
                let known = model(|m| stream(m, s).known.iter().find(|(i, _)| i == idx).map(|x| x.1));
                let got = inj.get(*idx);
                // read after the call: the bound only grows
                let reserved = model(|m| stream(m, s).reserved);
                match (&got, known) {
                    (Some(it), k) => {
                        let (uid, st) = validate_item(it, "C08", "Injector::get");
                        if st != s {
                            viol("C12", "foreign-item", format!("get({idx}) on a stream-{s} injector returned an item of stream {st}"));
                        }
                        if let Some(k) = k {
                            if k != uid {
                                soft("C08", "moved", format!("get({idx}) returned uid {uid}, push returned that index for uid {k}"));
                            }
                        }
                    }
                    (None, Some(k)) => viol("C08", "lost", format!("get({idx}) returned None after push of uid {k} had returned that index")),
                    (None, None) => {}
                }
                if got.is_some() && *idx >= reserved {
                    soft("C08", "phantom", format!("get({idx}) returned an item but only {reserved} indices were ever reserved"));
                }
            }
            WOp::Count => {
                let done = model(|m| stream(m, s).completed);
                let c = inj.injected_items();
                if c < done {
                    soft("C08", "count", format!("injected_items() = {c} < {done} completed pushes"));
                }
            }
            WOp::Burn { k } => {
                for _ in 0..*k {
                    nucleo_verif_rt::point("writer.burn");
                }
            }
            WOp::CloneAndDrop => {
                if extra.is_empty() {
                    ledger::with(|l| l.live_handles[s as usize] += 1);
                    extra.push(inj.clone());
                } else {
                    let e = extra.pop().unwrap();
                    ledger::with(|l| l.live_handles[s as usize] -= 1);
                    drop(e);
                }
            }
        }
    }
    for e in extra {
        ledger::with(|l| l.live_handles[s as usize] -= 1);
        drop(e);
    }
    ledger::with(|l| l.live_handles[s as usize] -= 1);
    drop(inj);
}

// ------------------------------------------------------------------------------------------------

impl Job for NucleoScript {
    fn sched(&self) -> SchedCfg {
        self.sched.clone()
    }
    fn capacity_knob(&self) -> Option<u32> {
        self.capacity
    }
    fn weak_memory(&self) -> Option<u32> {
        self.weak
    }
    fn yield_every(&self) -> u32 {
        if self.writers.iter().flatten().any(|o| matches!(o, WOp::ExtendBig { .. } | WOp::ExtendKiller { .. })) {
            16
        } else {
            1
        }
    }
    fn body(&self) {
        let nw = self.writers.len();
        MODEL.with(|m| {
            *m.borrow_mut() = Model {
                in_push: vec![None; nw],
                hold_next: vec![None; nw],
                burn_next: vec![0; nw],
                columns: self.columns as usize,
                check_notify_visibility: self.event_loop,
                ..Default::default()
            }
        });
        let event = Sh(Rc::new(Event::new()));
        let ev2 = event.clone();
        let notify: Arc<dyn Fn() + Sync + Send> = Arc::new(move || {
            // a notification mechanism synchronises (channel send, condvar, unpark ...)
            sim::flush_mine();
            model(|m| m.notifies += 1);
            sim::probe("notify");
            if let Role::Writer(w) = sim::my_role() {
                // C13, second sentence: push/extend call notify after the new items are visible
                check_notify_visibility(w as usize);
            }
            ev2.set();
        });
        let nucleo: Nucleo<Payload> = Nucleo::new(self.config(), notify, Some(self.pool_threads as usize), self.columns);
        let mut ui = Ui {
            sc: self,
            nucleo: Some(nucleo),
            handles: Vec::new(),
            cur_stream: 0,
            texts: vec![String::new(); self.columns as usize],
            opts: vec![(self.case, self.norm); self.columns as usize],
            refm: Matcher::new(self.config()),
            gates: (0..self.gates).map(|_| Sh(Rc::new(Gate::default()))).collect(),
            event,
            writers: Vec::new(),
            spawned: BTreeSet::new(),
            frozen: None,
            awaiting_new_stream: false,
            pending_edit: false,
            last_running: false,
            holes_possible: self.may_leave_holes(),
            ticks: 0,
        };
        ui.set_ledger_model();
        for op in &self.ui {
            ui.run_op(op);
        }
        // epilogue: let everything finish, then drop every handle
        ui.join_writers();
        if ui.nucleo.is_some() {
            ui.check_injectors("epilogue");
        }
        let mut hs = std::mem::take(&mut ui.handles);
        // drop order is part of the script's diversity: handles first or Nucleo first
        let nucleo_first = self.ui.len() % 2 == 0;
        if nucleo_first {
            ui.drop_nucleo();
        }
        for h in hs.drain(..) {
            if let Some((inj, s)) = h {
                ledger::with(|l| l.live_handles[s as usize] -= 1);
                drop(inj);
            }
        }
        ui.drop_nucleo();
        // the snapshot/current-stream references are gone now; pool threads drain in the caller
    }
    fn post(&self, out: &mut Outcome) {
        if let Some(base) = model(|m| m.killer_baseline) {
            let hs = sim::with(|s| s.probes.get("sort.heapsort").copied().unwrap_or(0));
            if hs > base {
                out.probes.insert("worker.heapsort_on_killer_batch", 1);
            }
        }
        post_accounting(out);
    }
}

/// End-of-execution accounting shared by the worlds that create payloads: drop ledger and
/// matcher-column allocations (property C11).
pub fn post_accounting(out: &mut Outcome) {
    let rep = alloc::end_execution();
    match ledger::final_check() {
        Ok((created, drops)) => {
            out.probes.insert("ledger.items_created", created);
            out.probes.insert("ledger.drops", drops);
        }
        Err(e) => sim::record_violation("C11", "leak", e),
    }
    out.probes.insert("alloc.tracked_column_strings", rep.tracked as u64);
    let fill_panics = sim::with(|s| s.faults.get("F2.fill_panic").copied().unwrap_or(0));
    if rep.double_free > 0 {
        sim::record_violation("C11", "double-free", format!("{} matcher-column allocations were freed twice", rep.double_free));
    }
    if rep.leaked > 0 {
        // "each item ... together with the matcher columns filled for it, is destroyed exactly once ...
        // and nothing it owns is leaked", also for the item whose fill callback panicked
        sim::record_violation(
            "C11",
            "column-leak",
            format!("{} matcher-column allocations were never freed ({fill_panics} fill callbacks panicked in this run)", rep.leaked),
        );
    }
    out.probes.insert("fault.fill_panics_survived", fill_panics);
}

fn check_notify_visibility(w: usize) {
    let Some((inj_ptr, uids)) = model(|m| if m.check_notify_visibility { m.in_push[w].clone() } else { None }) else { return };
    let _q = sim::quiet();
    // the writer's own injector, alive for the duration of the call
    let inj: &Injector<Payload> = unsafe { &*(inj_ptr as *const Injector<Payload>) };
    let total = inj.injected_items();
    let mut found = 0;
    let mut filled = 0;
    for i in 0..total {
        if let Some(it) = inj.get(i) {
            if it.data.validate().is_ok() && uids.contains(&it.data.uid) {
                found += 1;
            }
        }
    }
    // items of this call whose fill callback completed (a panicking or short-reporting batch
    // publishes only a prefix; notify is not reached then)
    filled += uids.len();
    sim::probe("oracle.c13.notify_visibility");
    if found != filled {
        soft("C13", "notify-before-visible", format!("writer{w}: notify was called during push/extend of uids {uids:?} but only {found} of them are visible"));
    }
}

/// A fault-free, sequential version of a script (writers run to completion right after they are
/// spawned): its quiescent snapshots do not depend on the schedule, so the same script can be
/// executed against the real rayon / parking_lot build and compared (stub fidelity).
pub fn sequentialise(sc: &NucleoScript) -> NucleoScript {
    let mut out = sc.clone();
    out.event_loop = false;
    out.gates = 0;
    for w in out.writers.iter_mut() {
        let mut ops = Vec::new();
        for op in w.iter() {
            match op {
                WOp::Push { texts } | WOp::PushPanic { texts } => ops.push(WOp::Push { texts: texts.clone() }),
                WOp::Extend { items, .. } if !items.is_empty() => ops.push(WOp::Extend { items: items.clone(), lie: Lie::Honest, panic_at: None }),
                WOp::ExtendBig { n, seed } => ops.push(WOp::ExtendBig { n: *n, seed: *seed }),
                WOp::ExtendKiller { n, seed } => ops.push(WOp::ExtendKiller { n: *n, seed: *seed }),
                _ => {}
            }
        }
        *w = ops;
    }
    let mut ui = Vec::new();
    for op in &sc.ui {
        match op {
            UiOp::Spawn { .. } => {
                ui.push(op.clone());
                ui.push(UiOp::JoinWriters);
            }
            UiOp::NewInjector | UiOp::CloneInjector { .. } | UiOp::DropInjector { .. } | UiOp::Reparse { .. } | UiOp::ReparseOpts { .. } | UiOp::Restart { .. } | UiOp::Quiesce | UiOp::Tick { .. } => ui.push(op.clone()),
            _ => {}
        }
    }
    ui.push(UiOp::Quiesce);
    out.ui = ui;
    out
}

pub fn generate(rng: &mut SplitMix, focus: &str, tier_thorough: bool) -> NucleoScript {
    gen::nucleo_script(rng, focus, tier_thorough)
}
