//! Minimisation of a failing replay file: script ddmin, argument shrinking, schedule
//! simplification. A candidate is kept iff the *same property and violation class* recurs; the
//! exact decision trace of the kept run is recorded, and the result is replayed once more at the
//! end (in a fresh runner) before it is written.
use std::time::Instant;

use nucleo_verif_rt::sim::SplitMix;

use crate::exec::{self, Outcome};
use crate::world_nucleo::{Lie, NucleoScript, UiOp, WOp};
use crate::{counts_for, AnyScript, ReplayFile};

struct Ctx {
    property: String,
    class: String,
    deadline: Instant,
    runs: u64,
}

impl Ctx {
    fn out_of_time(&self) -> bool {
        Instant::now() > self.deadline
    }
    fn fails(&mut self, script: &AnyScript, trace: Option<Vec<u32>>) -> Option<Outcome> {
        self.runs += 1;
        let out = exec::run_one(script.job(), trace);
        let hit = out.violations.first().is_some_and(|v| counts_for(&v.property, &self.property) && v.class == self.class);
        hit.then_some(out)
    }
    /// try a candidate script: under the old trace (with fallback), then under fresh schedule seeds
    fn try_script(&mut self, cand: &AnyScript, old_trace: &[u32], fresh: u32) -> Option<Outcome> {
        if let Some(o) = self.fails(cand, Some(old_trace.to_vec())) {
            return Some(o);
        }
        let mut rng = SplitMix(self.runs ^ 0xA11CE);
        for _ in 0..fresh {
            if self.out_of_time() {
                return None;
            }
            let mut c = cand.clone();
            set_schedule_seed(&mut c, rng.next());
            if let Some(o) = self.fails(&c, None) {
                // keep the original seed in the file, the recorded trace is what replays
                return Some(o);
            }
        }
        None
    }
}

fn set_schedule_seed(s: &mut AnyScript, seed: u64) {
    match s {
        AnyScript::Nucleo(n) => n.sched.schedule_seed = seed,
        AnyScript::Boxcar(n) => n.sched.schedule_seed = seed,
        AnyScript::Sort(n) => n.sched.schedule_seed = seed,
    }
}

fn size(s: &AnyScript) -> usize {
    serde_json::to_string(s).map(|x| x.len()).unwrap_or(0)
}

/// all one-step reductions of a script, roughly biggest first
fn candidates(s: &AnyScript) -> Vec<AnyScript> {
    match s {
        AnyScript::Nucleo(n) => nucleo_candidates(n).into_iter().map(AnyScript::Nucleo).collect(),
        #[allow(unreachable_patterns)]
        other => crate::minimise_other(other),
    }
}

fn shorter(t: &str) -> Option<String> {
    if t.chars().count() > 1 {
        let mut c: Vec<char> = t.chars().collect();
        c.pop();
        Some(c.into_iter().collect())
    } else {
        None
    }
}

fn nucleo_candidates(n: &NucleoScript) -> Vec<NucleoScript> {
    let mut out = Vec::new();
    // whole writers
    for w in 0..n.writers.len() {
        if !n.writers[w].is_empty() {
            let mut c = n.clone();
            c.writers[w].clear();
            out.push(c);
        }
    }
    // halves of the UI script, then single ops
    let l = n.ui.len();
    if l >= 4 {
        for (a, b) in [(0, l / 2), (l / 2, l), (l / 4, 3 * l / 4)] {
            let mut c = n.clone();
            c.ui.drain(a..b);
            out.push(c);
        }
    }
    for i in (0..l).rev() {
        let mut c = n.clone();
        c.ui.remove(i);
        out.push(c);
    }
    for w in 0..n.writers.len() {
        for i in (0..n.writers[w].len()).rev() {
            let mut c = n.clone();
            c.writers[w].remove(i);
            out.push(c);
        }
    }
    // knobs
    if n.pool_threads > 1 {
        let mut c = n.clone();
        c.pool_threads = if n.pool_threads > 2 { 2 } else { 1 };
        out.push(c);
    }
    for (cfg, case, norm) in [(0u8, n.case, n.norm), (n.config, 0, n.norm), (n.config, n.case, 0)] {
        if (cfg, case, norm) != (n.config, n.case, n.norm) {
            let mut c = n.clone();
            c.config = cfg;
            c.case = case;
            c.norm = norm;
            out.push(c);
        }
    }
    if n.sched.p_timer_ppm != 0 {
        let mut c = n.clone();
        c.sched.p_timer_ppm = 0;
        out.push(c);
    }
    // arguments
    for i in 0..l {
        let mut c = n.clone();
        let changed = match &mut c.ui[i] {
            UiOp::Tick { timeout } | UiOp::WaitNotifyTick { timeout } if *timeout != 0 => {
                *timeout = 0;
                true
            }
            UiOp::Burn { k } if *k > 1 => {
                *k /= 2;
                true
            }
            UiOp::Reparse { text, .. } | UiOp::ReparseOpts { text, .. } => match shorter(text) {
                Some(t) => {
                    *text = t;
                    true
                }
                None => false,
            },
            UiOp::Quiesce => {
                c.ui[i] = UiOp::Tick { timeout: 10 };
                true
            }
            UiOp::TickUntilIdle { .. } => {
                c.ui[i] = UiOp::Tick { timeout: 10 };
                true
            }
            _ => false,
        };
        if changed {
            out.push(c);
        }
    }
    for w in 0..n.writers.len() {
        for i in 0..n.writers[w].len() {
            match &n.writers[w][i] {
                WOp::Extend { items, lie, panic_at } => {
                    if items.len() > 1 {
                        for keep in [items.len() / 2, items.len() - 1] {
                            let mut c = n.clone();
                            c.writers[w][i] = WOp::Extend {
                                items: items[..keep.max(1)].to_vec(),
                                lie: lie.clone(),
                                panic_at: panic_at.map(|p| p.min(keep.max(1) as u32 - 1)),
                            };
                            out.push(c);
                        }
                        // the interesting item is often the last one: also drop from the front, and
                        // (short batches) each item on its own
                        let mut drops: Vec<(usize, usize)> = vec![(0, items.len() / 2), (0, 1)];
                        if items.len() <= 24 {
                            drops.extend((1..items.len() - 1).map(|k| (k, k + 1)));
                        }
                        for (a, b) in drops {
                            if b <= a || b - a >= items.len() {
                                continue;
                            }
                            let mut rest = items[..a].to_vec();
                            rest.extend_from_slice(&items[b..]);
                            let mut c = n.clone();
                            c.writers[w][i] = WOp::Extend {
                                lie: lie.clone(),
                                panic_at: panic_at.map(|p| p.min(rest.len() as u32 - 1)),
                                items: rest,
                            };
                            out.push(c);
                        }
                    }
                    if *lie != Lie::Honest {
                        let mut c = n.clone();
                        c.writers[w][i] = WOp::Extend { items: items.clone(), lie: Lie::Honest, panic_at: *panic_at };
                        out.push(c);
                        if let Lie::Long(k) = lie {
                            if *k > 1 {
                                let mut c = n.clone();
                                c.writers[w][i] = WOp::Extend { items: items.clone(), lie: Lie::Long(k / 2), panic_at: *panic_at };
                                out.push(c);
                            }
                        }
                    }
                    if panic_at.is_some() {
                        let mut c = n.clone();
                        c.writers[w][i] = WOp::Extend { items: items.clone(), lie: lie.clone(), panic_at: None };
                        out.push(c);
                    }
                }
                WOp::PushPanic { texts } => {
                    let mut c = n.clone();
                    c.writers[w][i] = WOp::Push { texts: texts.clone() };
                    out.push(c);
                }
                WOp::Burn { k } | WOp::BurnNextFill { k } if *k > 1 => {
                    let mut c = n.clone();
                    c.writers[w][i] = match &n.writers[w][i] {
                        WOp::Burn { .. } => WOp::Burn { k: k / 2 },
                        _ => WOp::BurnNextFill { k: k / 2 },
                    };
                    out.push(c);
                }
                WOp::Push { texts } => {
                    for col in 0..texts.len() {
                        if let Some(t) = shorter(&texts[col]) {
                            let mut c = n.clone();
                            let mut tx = texts.clone();
                            tx[col] = t;
                            c.writers[w][i] = WOp::Push { texts: tx };
                            out.push(c);
                        }
                    }
                }
                _ => {}
            }
        }
    }
    out
}

pub fn main(args: &[String]) -> i32 {
    let path = args.first().expect("minimise FILE").clone();
    let budget: f64 = args.iter().position(|a| a == "--budget-s").and_then(|i| args.get(i + 1)).map_or(60.0, |v| v.parse().unwrap());
    let mut rf: ReplayFile = crate::load_replay(&path);
    exec::set_check_property(&rf.property);
    let mut cx = Ctx {
        property: rf.property.clone(),
        class: rf.violation.class.clone(),
        deadline: Instant::now() + std::time::Duration::from_secs_f64(budget),
        runs: 0,
    };
    // the file must reproduce to begin with
    let Some(first) = cx.fails(&rf.script, Some(rf.trace.clone())) else {
        eprintln!("minimise: {path} does not reproduce; left unchanged");
        return 3;
    };
    let before = (size(&rf.script), rf.trace.len());
    let mut script = rf.script.clone();
    let mut best = first;
    // 1. script reduction to a fixed point
    let mut progress = true;
    while progress && !cx.out_of_time() {
        progress = false;
        for cand in candidates(&script) {
            if cx.out_of_time() {
                break;
            }
            if size(&cand) >= size(&script) {
                continue;
            }
            if let Some(o) = cx.try_script(&cand, &best.trace, 12) {
                script = cand;
                best = o;
                progress = true;
                break;
            }
        }
    }
    // 2. schedule simplification: the shortest prefix of the trace after which "continue the
    //    current thread, else lowest runnable" still reproduces
    let full = best.trace.clone();
    let (mut lo, mut hi) = (0usize, full.len());
    while lo < hi && !cx.out_of_time() {
        let mid = (lo + hi) / 2;
        match cx.fails(&script, Some(full[..mid].to_vec())) {
            Some(o) => {
                best = o;
                hi = mid;
            }
            None => lo = mid + 1,
        }
    }
    // 3. final exact trace, replayed once more
    let exact = best.trace.clone();
    let Some(fin) = cx.fails(&script, Some(exact.clone())) else {
        eprintln!("minimise: final replay did not reproduce; left unchanged");
        return 3;
    };
    let v = fin.violations.first().unwrap();
    rf.script = script;
    rf.trace = exact;
    rf.violation = crate::ViolationRec { property: v.property.clone(), class: v.class.clone(), message: v.message.clone(), at_decision: v.at_decision };
    rf.trace_tail = fin.trace_tail.clone();
    rf.log = fin.log.clone();
    rf.minimised = true;
    rf.replay_mismatches = fin.stats.replay_mismatches;
    std::fs::write(&path, serde_json::to_string_pretty(&rf).unwrap()).expect("write");
    println!(
        "minimised {path}: script {} -> {} bytes, trace {} -> {} decisions, {} candidate runs",
        before.0,
        size(&rf.script),
        before.1,
        rf.trace.len(),
        cx.runs
    );
    0
}
