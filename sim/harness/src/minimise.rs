//! Minimisation of a failing replay file (script ddmin + schedule simplification).
pub fn main(_args: &[String]) -> i32 {
    eprintln!("minimise: not implemented yet");
    2
}
