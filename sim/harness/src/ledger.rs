//! Item payloads with a drop ledger (property C11) and canaries (C06/C08).
use nucleo_verif_rt::sim;
use std::cell::RefCell;

const MAGIC: u64 = 0x6e75_636c_656f_5f76;

#[derive(Default)]
pub struct Ledger {
    epoch: u64,
    /// per uid: (created, drops, stream)
    items: Vec<(bool, u32, u32)>,
    /// per uid: the fill callback returned normally, i.e. the item is (about to be) stored in
    /// the vector; before that it is still owned by the caller / the iterator
    stored: Vec<bool>,
    /// reachability model maintained by the world: live harness-held injector handles per stream
    pub live_handles: Vec<u32>,
    /// stream that a live Nucleo currently feeds (None = no live Nucleo)
    pub current_stream: Option<u32>,
    /// stream whose items the most recent snapshot check saw among the matches
    pub snapshot_stream: Option<u32>,
    pub drops: u64,
    pub drops_by_unwinding: u64,
}
thread_local! { static LEDGER: RefCell<Ledger> = RefCell::new(Ledger::default()); }
pub fn with<R>(f: impl FnOnce(&mut Ledger) -> R) -> R {
    LEDGER.with(|l| f(&mut l.borrow_mut()))
}
pub fn reset() {
    with(|l| {
        let e = l.epoch + 1;
        *l = Ledger { epoch: e, ..Default::default() };
    })
}

/// Over-aligned on purpose: the entry layout of the vector has to honour the alignment of the
/// item type (an entry stride that is not a multiple of 16 shows up as a misaligned access).
#[repr(align(16))]
pub struct Payload {
    pub canary: u64,
    pub uid: u32,
    pub stream: u32,
    pub texts: Vec<Box<str>>,
    epoch: u64,
}
impl Payload {
    pub fn new(uid: u32, stream: u32, texts: Vec<Box<str>>) -> Payload {
        let epoch = with(|l| {
            if l.items.len() <= uid as usize {
                l.items.resize(uid as usize + 1, (false, 0, 0));
            }
            assert!(!l.items[uid as usize].0, "harness bug: uid {uid} created twice");
            l.items[uid as usize] = (true, 0, stream);
            l.epoch
        });
        Payload { canary: MAGIC ^ uid as u64, uid, stream, texts, epoch }
    }
    /// Validate an item reference obtained from the library *before* touching anything it owns.
    /// Err = the memory is not a live, fully initialised payload.
    pub fn validate(&self) -> Result<(), String> {
        let (canary, uid) = (self.canary, self.uid);
        if canary != MAGIC ^ uid as u64 {
            return Err(format!("canary mismatch (canary={canary:#x} uid={uid:#x}): uninitialised or freed memory"));
        }
        with(|l| match l.items.get(uid as usize) {
            Some((true, 0, s)) if *s == self.stream => Ok(()),
            Some((true, d, _)) if *d > 0 => Err(format!("item uid={uid} read after it was dropped ({d} drops)")),
            _ => Err(format!("item uid={uid} is unknown to the ledger")),
        })
    }
}
impl Drop for Payload {
    fn drop(&mut self) {
        let uid = self.uid;
        let canary = self.canary;
        let mut violation = None;
        with(|l| {
            if self.epoch != l.epoch {
                return; // left over from an aborted execution
            }
            if canary != MAGIC ^ uid as u64 {
                violation = Some(("C11", "drop-garbage", format!("drop of a payload with a bad canary (uid={uid:#x})")));
                return;
            }
            l.drops += 1;
            if std::thread::panicking() {
                l.drops_by_unwinding += 1;
            }
            let Some(e) = l.items.get_mut(uid as usize) else { return };
            e.1 += 1;
            if e.1 > 1 {
                violation = Some(("C11", "double-drop", format!("item uid={uid} dropped {} times", e.1)));
                return;
            }
            let s = e.2;
            if !l.stored.get(uid as usize).copied().unwrap_or(false) {
                // never entered the vector (fill panicked, iterator dropped): the caller's to drop
                return;
            }
            let handles = l.live_handles.get(s as usize).copied().unwrap_or(0);
            if handles > 0 || l.current_stream == Some(s) || l.snapshot_stream == Some(s) {
                violation = Some((
                    "C11",
                    "dropped-while-reachable",
                    format!(
                        "item uid={uid} of stream {s} dropped while reachable (live injectors {handles}, current stream {:?}, snapshot stream {:?})",
                        l.current_stream, l.snapshot_stream
                    ),
                ));
            }
        });
        // poison our own fields so a later read through a dangling reference fails validation
        self.canary = 0xDEAD_DEAD_DEAD_DEAD;
        if let Some((p, c, m)) = violation {
            // never panic inside drop: record, the execution is failed at its end
            sim::record_violation(p, c, m);
        }
    }
}

pub fn mark_stored(uid: u32) {
    with(|l| {
        if l.stored.len() <= uid as usize {
            l.stored.resize(uid as usize + 1, false);
        }
        l.stored[uid as usize] = true;
    })
}

/// End-of-execution accounting: every created item must have been dropped exactly once.
pub fn final_check() -> Result<(u64, u64), String> {
    with(|l| {
        let mut created = 0u64;
        for (uid, (c, d, s)) in l.items.iter().enumerate() {
            if !*c {
                continue;
            }
            created += 1;
            if *d != 1 {
                return Err(format!("item uid={uid} of stream {s} was dropped {d} times by the end of the execution (leak)"));
            }
        }
        Ok((created, l.drops))
    })
}
