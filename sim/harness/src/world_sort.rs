//! W-sort: the cancellable parallel quicksort through the cfg-gated facade (property C18).
//!
//! The sort runs on a simulated pool of N threads; an optional canceller thread raises the cancel
//! flag with one store whose position relative to every `canceled.load` of the sort and to the
//! `join` forks is decided by the scheduler (fault F9).
use std::cell::Cell;
use std::sync::Arc;

use nucleo::verif::atomic::{AtomicBool, Ordering};
use nucleo_verif_rt::sim::{self, Role, SplitMix};
use serde::{Deserialize, Serialize};

use crate::exec::{Job, Outcome, SchedCfg};
use crate::gen::pick;

#[derive(Serialize, Deserialize, Clone, Debug, PartialEq)]
pub enum Family {
    Random,
    Sorted,
    Reversed,
    OrganPipe,
    SawTooth(u32),
    AllEqual,
    FewDistinct(u32),
    SortedWithSwaps(u32),
    /// median-of-three killer style permutation (drives bad pivots: heapsort / break_patterns)
    Killer,
    /// long equal runs next to their predecessor (partition_equal)
    Plateaus,
    /// random keys, but the positions choose_pivot samples (len/4, len/2, 3*len/4, each +-1)
    /// hold the largest (true) or smallest (false) keys: an extreme pivot, a partition with one
    /// tiny side at the top level
    SamplesExtreme(bool),
    /// McIlroy's "antiquicksort" adversary: keys are decided by the comparator while the sort
    /// runs, always to the sort's disadvantage (drives the pivot-selection fallbacks: heapsort,
    /// break_patterns); the keys it ends up with form an ordinary total order
    Adversary,
}

#[derive(Serialize, Deserialize, Clone, Debug)]
pub struct SortScript {
    /// after the main sort: this many additional small slices of the `Segments` family (plateaus,
    /// runs, outliers: the shapes the sort's shortcuts key on), sorted through the same facade on
    /// the same pool under the key-only weak order
    #[serde(default)]
    pub sweep: u32,
    pub len: u32,
    pub family: Family,
    pub data_seed: u64,
    pub pool_threads: u32,
    /// comparator: true = total order on (key, uid); false = strict weak order on key only
    pub total_order: bool,
    /// canceller: number of scheduling points it burns before its store (None = no canceller)
    pub cancel_after: Option<u32>,
    /// raise the flag before the sort starts
    pub pre_cancelled: bool,
    pub sched: SchedCfg,
}
impl SortScript {
    pub fn summary(&self) -> String {
        format!(
            "len={} family={:?} pool={} total_order={} cancel_after={:?} pre_cancelled={} strategy={}",
            self.len,
            self.family,
            self.pool_threads,
            self.total_order,
            self.cancel_after,
            self.pre_cancelled,
            self.sched.strategy_name()
        )
    }
    pub fn data(&self) -> Vec<(u32, u32)> {
        let n = self.len as usize;
        let mut rng = SplitMix::derive(self.data_seed, 7);
        let mut keys: Vec<u32> = match &self.family {
            Family::Random => (0..n).map(|_| rng.below(1 << 20) as u32).collect(),
            Family::Sorted => (0..n as u32).collect(),
            Family::Reversed => (0..n as u32).rev().collect(),
            Family::OrganPipe => (0..n).map(|i| i.min(n - 1 - i) as u32).collect(),
            Family::SawTooth(k) => (0..n).map(|i| (i as u32) % k.max(&1)).collect(),
            Family::AllEqual => vec![7; n],
            Family::FewDistinct(k) => (0..n).map(|_| rng.below(*k.max(&1) as u64) as u32).collect(),
            Family::SortedWithSwaps(k) => {
                let mut v: Vec<u32> = (0..n as u32).collect();
                for _ in 0..*k {
                    if n > 1 {
                        let (a, b) = (rng.below(n as u64) as usize, rng.below(n as u64) as usize);
                        v.swap(a, b);
                    }
                }
                v
            }
            Family::Killer => {
                // classic median-of-3 killer: first half interleaves small/large, second half even
                let mut v = vec![0u32; n];
                let k = n / 2;
                for i in 0..k {
                    if i % 2 == 0 {
                        v[i] = i as u32 + 1;
                    } else {
                        v[i] = (k + i) as u32 + if k % 2 == 0 { 0 } else { 1 };
                    }
                }
                for i in k..n {
                    v[i] = ((i - k + 1) * 2) as u32;
                }
                v
            }
            Family::Adversary => vec![u32::MAX; n],
            Family::SamplesExtreme(largest) => {
                let mut v: Vec<u32> = (0..n).map(|_| 1000 + rng.below(1 << 20) as u32).collect();
                if n >= 8 {
                    let mut k = 0u32;
                    for q in [n / 4, n / 2, n / 4 * 3] {
                        for p in [q - 1, q, q + 1] {
                            v[p] = if *largest { (1 << 21) + k } else { k };
                            k += 1;
                        }
                    }
                }
                v
            }
            Family::Plateaus => {
                let mut v = Vec::with_capacity(n);
                let mut key = 0u32;
                while v.len() < n {
                    let run = 1 + rng.below(200) as usize;
                    for _ in 0..run.min(n - v.len()) {
                        v.push(key);
                    }
                    key += 1 + rng.below(3) as u32;
                }
                if rng.below(2) == 0 {
                    v.reverse();
                }
                v
            }
        };
        keys.truncate(n);
        keys.into_iter().enumerate().map(|(i, k)| (k, i as u32)).collect()
    }
}

fn soft(class: &str, msg: String) {
    sim::soft_violation("C18", class, msg)
}

/// Structured small inputs: an ascending prefix (possibly with one swapped pair), then segments:
/// plateaus with a few outliers, ascending runs, descending runs, over slowly growing keys.
pub fn segments(rng: &mut SplitMix) -> Vec<u32> {
    let mut v: Vec<u32> = Vec::new();
    let mut base = 10u32;
    if rng.below(3) != 0 {
        let l = 20 + rng.below(70) as u32;
        v.extend(base..base + l);
        if rng.below(2) == 0 && l > 3 {
            let i = 1 + rng.below(l as u64 - 2) as usize;
            v.swap(i, i + 1);
        }
        base += l + 900;
    }
    let target = 50 + rng.below(260) as usize;
    while v.len() < target {
        match rng.below(6) {
            0..=2 => {
                // plateau, possibly repeated later (few distinct keys), with 0..2 outliers
                let k = 3 + rng.below(40) as usize;
                let start = v.len();
                v.extend(std::iter::repeat(base).take(k));
                for _ in 0..rng.below(3) {
                    let i = start + rng.below(k as u64) as usize;
                    v[i] = base + 1 + rng.below(12) as u32;
                }
                if rng.below(3) == 0 {
                    base += 1 + rng.below(9) as u32;
                }
            }
            3 => {
                let k = 1 + rng.below(4) as u32;
                for _ in 0..k {
                    v.push(base + 1 + rng.below(15) as u32);
                }
            }
            4 => {
                let k = 3 + rng.below(25) as u32;
                v.extend(base + 20..base + 20 + k);
                base += 20 + k;
            }
            _ => {
                let k = 6 + rng.below(12) as u32;
                v.extend((base + 50..base + 50 + k).rev());
                if rng.below(2) == 0 {
                    base += 50 + k;
                }
            }
        }
    }
    v
}

impl Job for SortScript {
    fn sched(&self) -> SchedCfg {
        self.sched.clone()
    }
    fn body(&self) {
        let pool = rayon::ThreadPoolBuilder::new().num_threads(self.pool_threads as usize).build().unwrap();
        let input = self.data();
        let mut v = input.clone();
        let flag = Arc::new(AtomicBool::new(false));
        if self.pre_cancelled {
            flag.store(true, Ordering::Relaxed);
        }
        let raised = Arc::new(std::sync::atomic::AtomicBool::new(self.pre_cancelled));
        let canceller = self.cancel_after.map(|k| {
            let (f2, r2) = (flag.clone(), raised.clone());
            shuttle::thread::spawn(move || {
                sim::set_role(Role::Aux(9));
                for _ in 0..k {
                    nucleo_verif_rt::point("canceller.burn");
                }
                // mark before the store: "the flag was never raised" must be exact
                r2.store(true, std::sync::atomic::Ordering::Relaxed);
                sim::fault("F9.cancel_during_sort");
                f2.store(true, Ordering::Relaxed);
            })
        });
        let total = self.total_order;
        let comparisons = Cell::new(0u64);
        struct Sh<T>(T);
        unsafe impl<T> Sync for Sh<T> {}
        unsafe impl<T> Send for Sh<T> {}
        impl<T> Sh<T> {
            fn get(&self) -> &T {
                &self.0
            }
        }
        let cmp_count = Sh(&comparisons);
        let f3 = flag.clone();
        // adversary state: key per uid (u32::MAX = "gas", not decided yet), next solid key, candidate
        let adversarial = self.family == Family::Adversary;
        let adv = {
            // a random eighth of the elements starts out decided (keys below every key the
            // adversary hands out later, which keeps its answers consistent), so that the input
            // does not look sorted to the sort's "already sorted" shortcut; the rest is gas
            let mut rng = SplitMix::derive(self.data_seed, 11);
            let n = input.len();
            let mut keys = vec![u32::MAX; n];
            for k in keys.iter_mut() {
                if rng.below(8) == 0 {
                    *k = rng.below(1 << 20) as u32;
                }
            }
            Sh(std::cell::RefCell::new((keys, 1u32 << 20, 0u32)))
        };
        let done_hs_cell = Sh(Cell::new(0u64));
        let cancelled = pool.install(|| {
            let cc = &cmp_count;
            let adv = &adv;
            let done_hs = &done_hs_cell;
            nucleo::verif_facade::par_quicksort(
                &mut v,
                |a: &(u32, u32), b: &(u32, u32)| {
                    cc.get().set(cc.get().get() + 1);
                    if adversarial {
                        let mut st = adv.get().borrow_mut();
                        // once the sort has given up on quicksort (heapsort fallback entered), the
                        // adversary decides every still-undecided key at random (above all decided
                        // ones, which keeps its earlier answers consistent): the fallback then
                        // works on ordinary unordered content instead of adversary-shaped content
                        let hs = sim::with(|s| s.probes.get("sort.heapsort").copied().unwrap_or(0));
                        if hs > done_hs.get().get() {
                            done_hs.get().set(hs);
                            let mut r = SplitMix::derive(self.data_seed, 31 + hs);
                            let base = st.1;
                            let n = st.0.len() as u64;
                            for k in st.0.iter_mut() {
                                if *k == u32::MAX {
                                    *k = base + r.below(4 * n + 16) as u32;
                                }
                            }
                            st.1 = base + 4 * n as u32 + 16;
                        }
                        let (x, y) = (a.1 as usize, b.1 as usize);
                        if st.0[x] == u32::MAX && st.0[y] == u32::MAX {
                            let freeze = if st.2 as usize == x { x } else { y };
                            st.0[freeze] = st.1;
                            st.1 += 1;
                        }
                        if st.0[x] == u32::MAX {
                            st.2 = x as u32;
                        } else if st.0[y] == u32::MAX {
                            st.2 = y as u32;
                        }
                        return st.0[x] < st.0[y];
                    }
                    if total {
                        a < b
                    } else {
                        a.0 < b.0
                    }
                },
                &f3,
            )
        });
        // the adversary's final keys are the keys the oracle judges by
        let (input, total) = if adversarial {
            let keys = adv.get().borrow().0.clone();
            for e in v.iter_mut() {
                e.0 = keys[e.1 as usize];
            }
            (keys.iter().enumerate().map(|(i, k)| (*k, i as u32)).collect::<Vec<_>>(), false)
        } else {
            (input, total)
        };
        let was_raised = raised.load(std::sync::atomic::Ordering::Relaxed);
        if let Some(c) = canceller {
            let _ = c.join();
        }
        sim::probe("oracle.c18");
        if cancelled {
            sim::probe("sort.reported_cancelled");
        }
        // permutation (uids are unique => exact multiset equality)
        let mut seen = vec![false; input.len()];
        let mut perm_ok = v.len() == input.len();
        for (k, uid) in &v {
            let i = *uid as usize;
            if i >= input.len() || seen[i] || input[i].0 != *k {
                perm_ok = false;
                break;
            }
            seen[i] = true;
        }
        if !perm_ok {
            soft("not-a-permutation", format!("after the sort (returned cancelled={cancelled}) the slice is not a permutation of its input ({})", self.summary()));
        }
        if !cancelled {
            let bad = v.windows(2).position(|w| if total { w[1] < w[0] } else { w[1].0 < w[0].0 });
            if let Some(p) = bad {
                soft("not-sorted", format!("sort reported 'not cancelled' but elements {p} and {} are out of order: {:?} {:?} ({})", p + 1, v[p], v[p + 1], self.summary()));
            }
        }
        if cancelled && !was_raised {
            soft("spurious-cancel", format!("sort reported 'cancelled' although the cancel flag was never raised ({})", self.summary()));
        }
        // input sweep (no canceller): the input dimension of the quantifier is cheap to sample
        // because comparisons are not scheduling points
        let never = AtomicBool::new(false);
        let mut rng = SplitMix::derive(self.data_seed, 23);
        for k in 0..self.sweep {
            let keys = segments(&mut rng);
            let mut w: Vec<(u32, u32)> = keys.iter().copied().zip(0..).collect();
            let c = pool.install(|| nucleo::verif_facade::par_quicksort(&mut w, |a: &(u32, u32), b: &(u32, u32)| a.0 < b.0, &never));
            let mut seen = vec![false; keys.len()];
            let perm = w.len() == keys.len() && w.iter().all(|(key, i)| (*i as usize) < keys.len() && keys[*i as usize] == *key && !std::mem::replace(&mut seen[*i as usize], true));
            if !perm {
                soft("not-a-permutation", format!("sweep slice #{k} (len {}) is not a permutation of its input after the sort; input {keys:?}", keys.len()));
            }
            if let Some(p) = w.windows(2).position(|x| x[1].0 < x[0].0) {
                soft("not-sorted", format!("sweep slice #{k} (len {}): sort reported cancelled={c} but elements {p} and {} are out of order ({} then {}); input {keys:?}", keys.len(), p + 1, w[p].0, w[p + 1].0));
            }
            if c {
                soft("spurious-cancel", format!("sweep slice #{k}: sort reported 'cancelled' although the flag was never raised"));
            }
        }
        sim::with(|s| *s.probes.entry("sort.sweep_slices").or_insert(0) += self.sweep as u64);
        sim::with(|s| *s.probes.entry("sort.comparisons").or_insert(0) += comparisons.get());
        drop(pool);
    }
    fn post(&self, _out: &mut Outcome) {
        let _ = crate::alloc::end_execution();
    }
}

/// An input order that drives the sort *of the tree under test* into its heapsort fallback: the
/// McIlroy adversary is run once against `par_quicksort` on the calling thread (slices of this size
/// are sorted sequentially) and the keys it ended up assigning are returned as dense ranks
/// `0..n` in input order. Sorting any sequence with these relative keys repeats the same
/// comparisons, so the caller can smuggle the order into another sort (the worker's tie-break on
/// haystack length). Deterministic for a given tree, size and seed.
pub fn killer_ranks(n: usize, seed: u64) -> Vec<u32> {
    let mut rng = SplitMix::derive(seed, 11);
    let mut keys = vec![u32::MAX; n];
    for k in keys.iter_mut() {
        if rng.below(8) == 0 {
            *k = rng.below(1 << 20) as u32;
        }
    }
    // (single-threaded use; the sort's bounds ask for Sync)
    struct Sh<T>(T);
    unsafe impl<T> Sync for Sh<T> {}
    unsafe impl<T> Send for Sh<T> {}
    impl<T> Sh<T> {
        fn get(&self) -> &T {
            &self.0
        }
    }
    let st = Sh(std::cell::RefCell::new((keys, 1u32 << 20, 0u32)));
    let done_hs = Sh(Cell::new(sim::with(|s| s.probes.get("sort.heapsort").copied().unwrap_or(0))));
    let mut v: Vec<u32> = (0..n as u32).collect();
    let flag = AtomicBool::new(false);
    let _ = nucleo::verif_facade::par_quicksort(
        &mut v,
        |a: &u32, b: &u32| {
            let mut st = st.get().borrow_mut();
            let done_hs = done_hs.get();
            let hs = sim::with(|s| s.probes.get("sort.heapsort").copied().unwrap_or(0));
            if hs > done_hs.get() {
                done_hs.set(hs);
                let mut r = SplitMix::derive(seed, 31 + hs);
                let base = st.1;
                let n = st.0.len() as u64;
                for k in st.0.iter_mut() {
                    if *k == u32::MAX {
                        *k = base + r.below(4 * n + 16) as u32;
                    }
                }
                st.1 = base + 4 * n as u32 + 16;
            }
            let (x, y) = (*a as usize, *b as usize);
            if st.0[x] == u32::MAX && st.0[y] == u32::MAX {
                let freeze = if st.2 as usize == x { x } else { y };
                st.0[freeze] = st.1;
                st.1 += 1;
            }
            if st.0[x] == u32::MAX {
                st.2 = x as u32;
            } else if st.0[y] == u32::MAX {
                st.2 = y as u32;
            }
            st.0[x] < st.0[y]
        },
        &flag,
    );
    let keys = st.0.into_inner().0;
    // dense ranks, ties (and keys the sort never looked at) in index order
    let mut order: Vec<usize> = (0..n).collect();
    order.sort_by_key(|&i| (keys[i], i));
    let mut ranks = vec![0u32; n];
    for (r, i) in order.into_iter().enumerate() {
        ranks[i] = r as u32;
    }
    ranks
}

pub fn generate(rng: &mut SplitMix, _focus: &str, thorough: bool) -> SortScript {
    // lengths around the thresholds: insertion sort (20), choose_pivot (50), sequential limit (2000)
    let len = if thorough && rng.below(40) == 0 {
        pick(rng, &[20_000u32, 60_000, 300_000])
    } else {
        match rng.below(10) {
            0 | 1 => pick(rng, &[0u32, 1, 2, 19, 20, 21, 49, 50, 51]),
            2 | 3 => 22 + rng.below(400) as u32,
            4 => pick(rng, &[1999u32, 2000, 2001, 2002]),
            5..=7 => 4001 + rng.below(3000) as u32,
            _ => 2001 + rng.below(9000) as u32,
        }
    };
    let family = match rng.below(16) {
        0..=2 => Family::Random,
        3 => Family::Sorted,
        4 => Family::Reversed,
        5 => Family::OrganPipe,
        6 => Family::SawTooth(pick(rng, &[2u32, 7, 100])),
        7 => Family::AllEqual,
        8 | 9 => Family::FewDistinct(pick(rng, &[1u32, 2, 3, 10])),
        10 => Family::SortedWithSwaps(pick(rng, &[1u32, 2, 5, 20])),
        11 => Family::Killer,
        12 => Family::Adversary,
        13 => Family::SamplesExtreme(rng.below(2) == 0),
        _ => Family::Plateaus,
    };
    let len = if family == Family::Adversary { len.max(64).min(9000) } else { len };
    let pool_threads = pick(rng, &[1u32, 2, 2, 3, 4, 8]);
    // the cancel branch is live only above 2 * MAX_SEQUENTIAL; the sort has few scheduling points
    // (the cancel loads, the join forks), so the canceller's delay is drawn from a small range
    let cancel_after = if len > 4000 {
        (rng.below(5) < 3).then(|| rng.below(14) as u32)
    } else {
        (rng.below(6) == 0).then(|| rng.below(40) as u32)
    };
    let est = pick(rng, &[20u64, 60, 200]);
    let sched = SchedCfg::generate(rng, est, 0, 2_000_000);
    SortScript {
        sweep: if len <= 2100 { 40 } else { 8 },
        len,
        family,
        data_seed: rng.next(),
        pool_threads,
        total_order: rng.below(3) != 0,
        cancel_after,
        pre_cancelled: rng.below(25) == 0,
        sched,
    }
}

pub fn candidates(s: &SortScript) -> Vec<SortScript> {
    let mut out = Vec::new();
    for l in [s.len / 2, s.len * 3 / 4, s.len.saturating_sub(1)] {
        if l < s.len {
            let mut c = s.clone();
            c.len = l;
            out.push(c);
        }
    }
    if s.pool_threads > 1 {
        let mut c = s.clone();
        c.pool_threads = 1;
        out.push(c);
    }
    if s.cancel_after.is_some() {
        let mut c = s.clone();
        c.cancel_after = None;
        out.push(c);
    }
    if s.family != Family::Random {
        let mut c = s.clone();
        c.family = Family::Random;
        out.push(c);
    }
    if s.sweep > 0 {
        for k in [0, s.sweep / 2, s.sweep - 1] {
            if k < s.sweep {
                let mut c = s.clone();
                c.sweep = k;
                out.push(c);
            }
        }
    }
    out
}
