#!/usr/bin/env python3
"""Stub-fidelity differential: the same sequential fault-free W-nucleo scripts are executed in simulation
(simulated rayon / parking_lot / clock) and natively against the real rayon / parking_lot build; every
quiescent snapshot (item_count, (idx, score) sequence) must be identical.
Usage: stub_fidelity.py [N=3000] [seed=7]"""
import os, subprocess, sys, json, time
VERIF = os.path.dirname(os.path.dirname(os.path.abspath(__file__)))
N = int(sys.argv[1]) if len(sys.argv) > 1 else 3000
SEED = int(sys.argv[2]) if len(sys.argv) > 2 else 7
env = dict(os.environ, CARGO_NET_OFFLINE="true"); env.pop("RUSTFLAGS", None)
for mode, d in (("sim", "main"), ("real", "real-main")):
    subprocess.run([sys.executable, os.path.join(VERIF, "tools", "mkbuild.py"), "/repo", os.path.join(VERIF, "build", d), mode], check=True)
    subprocess.run(["cargo", "build", "--release", "--offline", "-q"], cwd=os.path.join(VERIF, "build", d), env=env, check=True, stderr=subprocess.DEVNULL)
out = os.path.join(VERIF, "build", "work", "seqdiff.jsonl"); os.makedirs(os.path.dirname(out), exist_ok=True)
t0 = time.time()
a = subprocess.run([os.path.join(VERIF, "build/main/target/release/nsim"), "seqdiff", "--seed", str(SEED), "--count", str(N), "--out", out], stdout=subprocess.PIPE, text=True)
print(a.stdout.strip())
if a.returncode: sys.exit(1)
b = subprocess.run([os.path.join(VERIF, "build/real-main/target/release/nreal"), "seqdiff", out], stdout=subprocess.PIPE, text=True)
print(b.stdout.strip()[-2000:])
os.remove(out)
json.dump(dict(scripts=N, seed=SEED, result=b.stdout.strip().splitlines()[-1], wall_s=round(time.time() - t0, 1)),
          open(os.path.join(VERIF, "evidence", "stub_fidelity.json"), "w"), indent=1)
sys.exit(b.returncode)
