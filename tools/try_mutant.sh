#!/bin/bash
# try_mutant.sh <worktree> <patch> <demo.rs|-> "<check ids>" [extra cargo test flags for the demo]
# Applies <patch> in the scratch <worktree>, confirms the existing suite passes and the demo fails with it
# (and passes without it), runs the listed checks against the patched worktree, then restores the worktree.
set -u
WT=$1; PATCH=$2; DEMO=$3; CHECKS=$4; DEMOFLAGS=${5:-}
cd "$WT" || exit 2
git checkout -q -- . ; rm -rf tests/zz_demo.rs
run_demo() { [ "$DEMO" = "-" ] && return 0; mkdir -p tests; cp "$DEMO" tests/zz_demo.rs; timeout 900 env CARGO_NET_OFFLINE=true cargo test --offline $DEMOFLAGS --test zz_demo >"$WT.demo.log" 2>&1; r=$?; rm -f tests/zz_demo.rs; rmdir tests 2>/dev/null; return $r; }
run_demo; echo "demo without change: exit $? (expect 0)"
git apply "$PATCH" || { echo "PATCH DOES NOT APPLY"; exit 2; }
CARGO_NET_OFFLINE=true cargo test --workspace --offline >"$WT.suite.log" 2>&1; echo "suite with change: exit $? (expect 0); $(grep -c 'test result: ok' "$WT.suite.log") ok groups, passed: $(grep -o '[0-9]* passed' "$WT.suite.log" | awk '{s+=$1} END{print s}')"
run_demo; echo "demo with change: exit $? (expect != 0)"
for C in $CHECKS; do
  out=$(cd /verif && VERIF_REPO="$WT" ./check $C 2>&1); code=$?
  echo "check $C on mutant: exit $code :: $(echo "$out" | grep -E 'violation class|HARNESS' | head -2 | cut -c1-260)"
done
git checkout -q -- .
