#!/usr/bin/env python3
"""Generate the shadow build directory for the simulator.

The directory contains only manifests: a package `nsim` whose sources are /verif/sim/harness,
and a package `nucleo` whose `[lib] path` is <repo>/src/lib.rs, compiled unchanged against the
simulated `rayon` and `parking_lot` and the runtime crate. <repo>/Cargo.toml and Cargo.lock are
never touched. Usage: mkbuild.py <repo> <builddir> [sim|real]
"""
import os, sys, shutil

VERIF = os.path.dirname(os.path.dirname(os.path.abspath(__file__)))

def write_if_changed(path, text):
    os.makedirs(os.path.dirname(path), exist_ok=True)
    try:
        if open(path).read() == text:
            return
    except FileNotFoundError:
        pass
    open(path, "w").write(text)

def main():
    repo = os.path.abspath(sys.argv[1])
    out = os.path.abspath(sys.argv[2])
    mode = sys.argv[3] if len(sys.argv) > 3 else "sim"
    sim = os.path.join(VERIF, "sim")
    if mode == "sim":
        deps_nucleo = f'''nucleo-matcher = {{ path = "{repo}/matcher" }}
parking_lot = {{ path = "{sim}/shims/parking_lot", features = ["send_guard", "arc_lock"] }}
rayon = {{ path = "{sim}/shims/rayon" }}
nucleo-verif-rt = {{ path = "{sim}/rt" }}
'''
        root = f'''[package]
name = "nsim"
version = "0.1.0"
edition = "2021"

[[bin]]
name = "nsim"
path = "{sim}/harness/src/main.rs"

[dependencies]
nucleo = {{ path = "shadow/nucleo" }}
rayon = {{ path = "{sim}/shims/rayon" }}
parking_lot = {{ path = "{sim}/shims/parking_lot" }}
nucleo-verif-rt = {{ path = "{sim}/rt" }}
shuttle = "0.9.3"
serde = {{ version = "1", features = ["derive"] }}
serde_json = "1"

[profile.release]
opt-level = 2
debug = false
debug-assertions = true
overflow-checks = true
panic = "unwind"
incremental = true
codegen-units = 16

[workspace]
members = ["shadow/nucleo"]
'''
    else:
        # engine B: real rayon / parking_lot, pass-through runtime (no shuttle)
        deps_nucleo = f'''nucleo-matcher = {{ path = "{repo}/matcher" }}
parking_lot = {{ version = "0.12.1", features = ["send_guard", "arc_lock"] }}
rayon = "1.7.0"
nucleo-verif-rt = {{ path = "{sim}/rt", default-features = false }}
'''
        root = f'''[package]
name = "nreal"
version = "0.1.0"
edition = "2021"

[[bin]]
name = "nreal"
path = "{sim}/real/src/main.rs"

[dependencies]
nucleo = {{ path = "shadow/nucleo" }}
rayon = "1.7.0"
nucleo-verif-rt = {{ path = "{sim}/rt", default-features = false }}
serde = {{ version = "1", features = ["derive"] }}
serde_json = "1"

[profile.release]
opt-level = 2
debug-assertions = true
overflow-checks = true

[workspace]
members = ["shadow/nucleo"]
'''
    shadow = f'''[package]
name = "nucleo"
version = "0.5.0"
edition = "2021"

[lib]
path = "{repo}/src/lib.rs"

[dependencies]
{deps_nucleo}
[lints.rust]
unexpected_cfgs = {{ level = "allow" }}
'''
    write_if_changed(os.path.join(out, "Cargo.toml"), root)
    write_if_changed(os.path.join(out, "shadow", "nucleo", "Cargo.toml"), shadow)
    write_if_changed(os.path.join(out, ".cargo", "config.toml"),
        '[build]\nrustflags = ["--cfg", "nucleo_verif"]\n[net]\noffline = true\n')
    lock_src = os.path.join(sim, "Cargo.lock" if mode == "sim" else "Cargo.real.lock")
    lock_dst = os.path.join(out, "Cargo.lock")
    if os.path.exists(lock_src) and not os.path.exists(lock_dst):
        shutil.copy(lock_src, lock_dst)

if __name__ == "__main__":
    main()
