#!/usr/bin/env python3
"""Determinism campaign: every run must be a pure function of (VERIF_SEED, property, index).

For each property: N indices are executed three times - in one process, in 4 concurrent processes and in
16 concurrent processes (different chunking, different neighbours in the same process, different load) -
and the per-run observable summaries (trace hash over all (role, site) decisions, decision / pre-emption /
step counts, simulated time, violations, probe total) are compared line by line.
Usage: determinism_campaign.py [N] [--thorough]     (uses /verif/build/main/target/release/nsim)
"""
import subprocess, sys, json, os
from concurrent.futures import ThreadPoolExecutor
VERIF = os.path.dirname(os.path.dirname(os.path.abspath(__file__)))
sys.path.insert(0, os.path.join(VERIF, "tools"))
import plan
NSIM = os.path.join(VERIF, "build", "main", "target", "release", "nsim")
N = int(next((a for a in sys.argv[1:] if a.isdigit()), 2000))
TH = ["--thorough"] if "--thorough" in sys.argv else []
SEEDS = [20261002, 1]
def run(prop, seed, start, count):
    return subprocess.run([NSIM, "determinism", "--property", prop, "--seed", str(seed), "--start", str(start), "--count", str(count)] + TH,
                          stdout=subprocess.PIPE, stderr=subprocess.DEVNULL, text=True).stdout.splitlines()
def split(prop, seed, parts):
    per = N // parts
    with ThreadPoolExecutor(max_workers=parts) as ex:
        outs = list(ex.map(lambda k: run(prop, seed, k * per, per if k < parts - 1 else N - per * (parts - 1)), range(parts)))
    return [l for o in outs for l in o]
total, bad = 0, 0
report = {}
for prop in plan.PROPERTIES:
    for seed in SEEDS:
        a = run(prop, seed, 0, N)
        b = split(prop, seed, 4)
        c = split(prop, seed, 16)
        m = sum(1 for x, y, z in zip(a, b, c) if not (x == y == z)) + abs(len(a) - len(b)) + abs(len(a) - len(c))
        total += len(a); bad += m
        report[f"{prop}/seed{seed}"] = dict(runs=len(a), mismatches=m)
        print(prop, seed, len(a), "runs x 3 executions, mismatches:", m, flush=True)
json.dump(dict(indices_per_property=N, executions_per_index=3, process_layouts=[1, 4, 16], total_runs_compared=total, mismatches=bad, detail=report),
          open(os.path.join(VERIF, "evidence", "determinism_campaign.json"), "w"), indent=1)
print("TOTAL", total, "mismatches", bad)
sys.exit(1 if bad else 0)
