"""Per-property plan of the deterministic-simulation checks (budgets, oracle text for the evidence)."""

COMMON_ASSUMPTIONS = [
    "schedules and fault plans are sampled (seeded search), not enumerated: a clean batch is evidence, not proof",
    "engine A executes sequentially consistent interleavings plus, in a fraction of the runs, a store-buffer (TSO-like) "
    "weak-memory mode; other weak-memory effects are covered only by the happens-before monitor over the declared "
    "orderings (and by Miri in the thorough tier where listed)",
    "rayon and parking_lot are simulated stand-ins with the behaviours argued in DESIGN.md section 2.6; "
    "std::sync::Arc, nucleo-matcher and all of /repo/src are the real code",
    "the matcher configuration is fixed for the lifetime of a run; case matching and normalisation may change at any "
    "reparse, and the append hint is only given when it is truthful (same settings, new text extends the old text)",
]

MIRI_BOXCAR = dict(name="boxcar", argv=["boxcar", "1", "20"], seeds=32)
MIRI_BOXCAR_SCRIPTS = [dict(name=f"boxcar-script-{k}", argv=["boxcar-script", str(k)], seeds=6) for k in range(1, 9)]
MIRI_NUCLEO = dict(name="nucleo", argv=["nucleo", "1", "16"], seeds=32)
MIRI_EVENTLOOP = dict(name="eventloop", argv=["eventloop", "1", "40"], seeds=64, timeout=3000)
MIRI_KINDS = [dict(name=f"kinds-{v}", argv=["kinds", str(v)], seeds=2, timeout=3000) for v in (0, 1)]
MIRI_BOXCAR_FAULTS = [dict(name=f"boxcar-faults-{c}", argv=["boxcar-faults", str(c)], seeds=1, timeout=1200,
                           flags="-Zmiri-tree-borrows -Zmiri-permissive-provenance") for c in (1, 32)]
MIRI_SORT = dict(name="sort", argv=["sort", "4100", "2"], seeds=2, timeout=1500)

PROPERTIES = {
    "C06": dict(
        quick_runs=400_000, thorough_runs=6_000_000, level="exploration",
        oracle="Oracle (after every tick, on the UI thread): every match resolves through the safe accessor to a fully "
               "initialised item (canary, ledger, columns == f(value)) of one stream; no index twice; score == "
               "snapshot.pattern().score(item) on a fresh matcher; item_count + #(initialised matching items not "
               "reported) <= #initialised items (existence of a processed set); order strictly increasing under "
               "(score desc, total length asc, index asc), index order for the empty pattern; cfg-gated "
               "get_unchecked-on-unpublished assertion; any panic on a pool thread.",
        assumptions=COMMON_ASSUMPTIONS,
        probes_expected=["run.canceled", "tick.stale_run_discarded", "join.stolen", "boxcar.cas_lost", "take_any_while.stopped",
                         "worker.heapsort_on_killer_batch"],
        miri=[MIRI_NUCLEO] + MIRI_KINDS,
    ),
    "C07": dict(
        quick_runs=400_000, thorough_runs=6_000_000, level="exploration",
        oracle="Oracle (at quiescence checkpoints: writers joined, tick until running == false): item_count == injected "
               "items, snapshot pattern atoms == fresh parse, matches() == (idx, score) sequence of a from-scratch "
               "scoring of every item with a freshly parsed pattern on a fresh matcher sorted by (score desc, length "
               "asc, index asc). Checkpoints that cannot become idle because a fault left a never-published index "
               "are counted as vacuous; without such a fault not becoming idle in 48 ticks is a violation.",
        assumptions=COMMON_ASSUMPTIONS,
        probes_expected=["oracle.c07", "run.canceled", "quiesce.vacuous", "worker.heapsort_on_killer_batch"],
    ),
    "C08": dict(
        quick_runs=500_000, thorough_runs=8_000_000, level="exploration",
        oracle="Oracle (W-boxcar, every atomic operation of the vector is a scheduling point; history of invoke/return "
               "events stamped with the simulator's global event number): at quiescence every successfully pushed value "
               "occurs exactly once, at the index push returned; the published prefix of a batch is contiguous and "
               "ascending; every other index below count() is a hole accounted for by the fault plan (lying iterator, "
               "panicking fill) and reads None; count() == reserved indices. Real time: get(i) invoked after push->i "
               "returned is Some with that value and columns == f(value); Some is stable; never Some for an unassigned "
               "index; both snapshot iterators yield each index of [start,end) exactly once with complete items only; "
               "count() is non-decreasing and >= pushes completed before it was invoked.",
        assumptions=COMMON_ASSUMPTIONS + ["get_unchecked is only called with indices a push returned (its documented precondition); look-ups through get use any u32"],
        probes_expected=["oracle.c08", "boxcar.cas_lost"],
        miri=[MIRI_BOXCAR] + MIRI_BOXCAR_SCRIPTS,
    ),
    "C09": dict(
        quick_runs=300_000, thorough_runs=4_000_000, level="exploration",
        oracle="Oracle: vector-clock happens-before monitor over the orderings declared at each atomic call site "
               "(fork/join, job hand-over, lock hand-over, release/acquire, release sequences, fences); every plain "
               "access reported by the hooks (bucket initialisation, entry write in push/extend before and after, "
               "Entry::read, per-thread matcher cell) must be ordered after the last conflicting access.",
        assumptions=COMMON_ASSUMPTIONS + ["memory outside the hooked regions is race-checked only by engine B (Miri)"],
        probes_expected=["boxcar.cas_lost", "join.stolen"],
        miri=[MIRI_BOXCAR, MIRI_NUCLEO, MIRI_SORT, MIRI_KINDS[0]] + MIRI_BOXCAR_SCRIPTS,
    ),
    "C11": dict(
        quick_runs=300_000, thorough_runs=4_000_000, level="fault_enumeration",
        oracle="Oracle: drop ledger per item (exactly one drop by the end of the execution, after every simulated "
               "thread has finished; no drop of a stored item while an injector of its stream is alive, its stream "
               "is current or the last checked snapshot shows it; every read validates canary + ledger: no use "
               "after drop); allocator seam for matcher-column strings (none live at the end - also not those a fill "
               "callback stored before it panicked -, none freed twice). "
               "Fault plan enumerates panic positions and lie sizes relative to the bucket geometry.",
        assumptions=COMMON_ASSUMPTIONS,
        probes_expected=["ledger.items_created", "alloc.tracked_column_strings", "fault.fill_panics_survived"],
        miri=MIRI_BOXCAR_FAULTS,
    ),
    "C12": dict(
        quick_runs=400_000, thorough_runs=6_000_000, level="exploration",
        oracle="Oracle: items carry their stream number. restart(true): snapshot empty immediately. restart(false): "
               "snapshot (matches, item_count, pattern) identical to the pre-restart copy while it still shows old "
               "items; one stream per snapshot; once a snapshot of the current stream was seen no older stream ever "
               "reappears; indices of the current stream hold only current-stream items; old injectors keep working "
               "and change nothing observable (active_injectors, item_count bound).",
        assumptions=COMMON_ASSUMPTIONS,
        probes_expected=["tick.stale_run_discarded", "run.canceled"],
    ),
    "C13": dict(
        quick_runs=400_000, thorough_runs=6_000_000, level="exploration",
        oracle="Oracle (event-loop world: the UI ticks only after its own edit/restart or when notified): whenever "
               "the last tick reported running == true the UI waits for the notify callback under a 60-simulated-"
               "second watchdog that, being a long timer, can only fire once no other thread is runnable; expiry = "
               "lost wake-up. Every notify issued from push/extend is checked to come after all items of that call "
               "are visible through Injector::get.",
        assumptions=COMMON_ASSUMPTIONS,
        probes_expected=["eventloop.wait", "oracle.c13.notify_visibility", "tick.lock_failed"],
        miri=[MIRI_EVENTLOOP],
    ),
    "C18": dict(
        quick_runs=200_000, thorough_runs=2_000_000, level="exploration",
        oracle="Oracle (W-sort: par_quicksort through the cfg-gated facade on a simulated pool of N threads, optional "
               "canceller thread whose single store is placed by the scheduler): the slice is a permutation of its input "
               "(unique uids: exact multiset equality); returned false => no adjacent inversion under is_less; flag never "
               "raised => returned false. Inputs: lengths around the insertion-sort / pivot / sequential thresholds and "
               "above 2*MAX_SEQUENTIAL, families random/sorted/reversed/organ-pipe/saw-tooth/equal/few-distinct/"
               "near-sorted/killer/plateaus and McIlroy's adversarial comparator (probes show heapsort, break_patterns, "
               "partial insertion sort and partition_equal were entered). The thread-count clause is decided by C07's "
               "oracle, whose reference order is thread-free.",
        assumptions=COMMON_ASSUMPTIONS + ["comparisons are not scheduling points (the comparator is harness code)"],
        probes_expected=["sort.heapsort", "sort.break_patterns", "sort.partial_insertion", "sort.partition_equal",
                         "sort.canceled_at_fork", "join.stolen"],
        miri=[MIRI_SORT],
    ),
    "C19": dict(
        quick_runs=400_000, thorough_runs=6_000_000, level="exploration",
        oracle="Oracle (around every tick): changed == false => (matches, item_count, pattern atoms) equal the copy "
               "taken before the call; running == false => item_count >= number of current-stream pushes that had "
               "returned before the call began, and snapshot pattern atoms == Nucleo::pattern atoms.",
        assumptions=COMMON_ASSUMPTIONS,
        probes_expected=["ui.tick.running", "ui.tick.changed"],
    ),
    "C20": dict(
        quick_runs=400_000, thorough_runs=6_000_000, level="exploration",
        oracle="Oracle: after every UI operation and tick, active_injectors() == number of live Injector values "
               "(held by the UI or by writer threads, clones included) of the current stream; the model is updated "
               "in the same scheduling-point-free section as the Arc operation.",
        assumptions=COMMON_ASSUMPTIONS,
        probes_expected=["oracle.c20"],
    ),
}
