#!/usr/bin/env python3
"""Re-run the checks against every kept seeded change (sensitivity regression of the machinery).

For each /verif/seeded/<id>/ : apply patch.diff in a scratch worktree of /repo's HEAD (outside /repo and
/verif), run `VERIF_REPO=<worktree> ./check <property>` and expect exit 1; restore the worktree.
Usage: seeded_regress.py [id-prefix ...]   (the scratch worktree is removed at the end)
"""
import json, os, subprocess, sys, glob
VERIF = os.path.dirname(os.path.dirname(os.path.abspath(__file__)))
sys.path.insert(0, os.path.join(VERIF, "tools"))
import plan
WT = "/tmp/seeded-wt"
def sh(*a, **k): return subprocess.run(a, stdout=subprocess.PIPE, stderr=subprocess.STDOUT, text=True, **k)
sh("git", "-C", "/repo", "worktree", "remove", "--force", WT)
r = sh("git", "-C", "/repo", "worktree", "add", "-f", "--detach", WT, "HEAD")
if r.returncode: print(r.stdout); sys.exit(2)
want = [a for a in sys.argv[1:] if not a.startswith('--')]
res = []
try:
    for d in sorted(glob.glob(os.path.join(VERIF, "seeded", "*"))):
        mid = os.path.basename(d)
        if not os.path.isdir(d): continue
        if want and not any(mid.startswith(w) for w in want): continue
        meta = json.load(open(os.path.join(d, "meta.json")))
        if meta.get("tier_needed") == "thorough" and "--thorough" not in sys.argv:
            print((mid, "skipped (caught by the thorough tier only)", "")); continue
        sh("git", "-C", WT, "checkout", "--", ".")
        a = sh("git", "-C", WT, "apply", os.path.join(d, "patch.diff"))
        if a.returncode:
            res.append((mid, "PATCH-DOES-NOT-APPLY", a.stdout.strip()[:100])); print(res[-1]); continue
        env = dict(os.environ, VERIF_REPO=WT)
        # the check of the property the change was written against first; where the recorded detector is
        # a sibling check (a pure memory-ordering change is C09's, a sort defect C18's), that one next
        props = [meta["property"]]
        sib = (meta.get("detected_by") or {}).get("check")
        if isinstance(sib, str) and sib in plan.PROPERTIES and sib not in props:
            props.append(sib)
        for prop in props:
            c = sh(os.path.join(VERIF, "check"), prop, cwd=VERIF, env=env)
            if c.returncode != 0:
                break
        line = next((l.strip() for l in c.stdout.splitlines() if "violation class" in l), "")
        res.append((mid, {0: "MISSED", 1: f"caught by {prop}", 2: "HARNESS-ERROR"}.get(c.returncode, str(c.returncode)), line[:160]))
        print(res[-1], flush=True)
finally:
    sh("git", "-C", "/repo", "worktree", "remove", "--force", WT)
    sh("rm", "-rf", os.path.join(VERIF, "build", "alt-*"))
    subprocess.run("rm -rf %s/build/alt-*" % VERIF, shell=True)
missed = [r for r in res if not r[1].startswith("caught")]
print(f"{len(res) - len(missed)}/{len(res)} caught")
sys.exit(1 if missed else 0)
