#!/usr/bin/env python3
"""Apply every semantically harmless edit of /verif/harmless/edits.json to a scratch worktree of /repo's HEAD
and run every check against it: all must exit 0 (no false alarm)."""
import json, os, subprocess, sys
VERIF = os.path.dirname(os.path.dirname(os.path.abspath(__file__)))
sys.path.insert(0, os.path.join(VERIF, "tools"))
import plan
WT = "/tmp/harmless-wt"
def sh(*a, **k): return subprocess.run(a, stdout=subprocess.PIPE, stderr=subprocess.STDOUT, text=True, **k)
sh("git", "-C", "/repo", "worktree", "remove", "--force", WT)
assert sh("git", "-C", "/repo", "worktree", "add", "-f", "--detach", WT, "HEAD").returncode == 0
want = sys.argv[1:]
bad = 0
try:
    for e in json.load(open(os.path.join(VERIF, "harmless", "edits.json"))):
        if want and not any(e["id"].startswith(w) for w in want): continue
        sh("git", "-C", WT, "checkout", "--", ".")
        path = os.path.join(WT, e["file"]); s = open(path).read()
        for old, new in e["subs"]:
            assert old in s, (e["id"], old)
            s = s.replace(old, new)
        open(path, "w").write(s)
        t = sh("cargo", "test", "--workspace", "--offline", cwd=WT, env=dict(os.environ, CARGO_NET_OFFLINE="true"))
        suite = "suite ok" if t.returncode == 0 else "SUITE FAILS"
        res = []
        for prop in plan.PROPERTIES:
            c = sh(os.path.join(VERIF, "check"), prop, cwd=VERIF, env=dict(os.environ, VERIF_REPO=WT))
            if c.returncode != 0:
                bad += 1
                line = next((l.strip() for l in c.stdout.splitlines() if "violation class" in l or "HARNESS" in l), "")
                res.append(f"{prop}: exit {c.returncode} {line[:200]}")
        print(e["id"], suite, "ALL SILENT" if not res else res, flush=True)
finally:
    sh("git", "-C", "/repo", "worktree", "remove", "--force", WT)
    subprocess.run("rm -rf %s/build/alt-*" % VERIF, shell=True)
sys.exit(1 if bad else 0)
