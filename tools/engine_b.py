"""Engine B: Miri as a second, stub-free deterministic simulator (thorough tier only).

`cargo +nightly miri run` interprets the repository's crate (with the cfg-gated facade and capacity
knob, but with the *real* rayon, crossbeam and parking_lot and plain std atomics) on interpreted
threads under Miri's own seeded scheduler, with its data-race detector, weak-memory emulation and
UB checks. One -Zmiri-seed is one repeatable execution. Scenarios are the small fixed programs of
/verif/sim/real/src/main.rs.
"""
import hashlib, json, os, re, subprocess, sys, time

VERIF = os.path.dirname(os.path.dirname(os.path.abspath(__file__)))
BASE_FLAGS = "-Zmiri-tree-borrows -Zmiri-permissive-provenance -Zmiri-ignore-leaks -Zmiri-preemption-rate=0.05"


def _build_dir(repo):
    key = "real-main" if repo == "/repo" else "real-alt-" + hashlib.sha1(repo.encode()).hexdigest()[:10]
    bdir = os.path.join(VERIF, "build", key)
    subprocess.run([sys.executable, os.path.join(VERIF, "tools", "mkbuild.py"), repo, bdir, "real"], check=True)
    return bdir


def _miri(bdir, argv, flags, timeout):
    env = dict(os.environ, MIRIFLAGS=flags, CARGO_NET_OFFLINE="true")
    env.pop("RUSTFLAGS", None)
    try:
        r = subprocess.run(["cargo", "+nightly", "miri", "run", "--offline", "-q", "--"] + argv, cwd=bdir, env=env,
                           stdout=subprocess.PIPE, stderr=subprocess.STDOUT, text=True, timeout=timeout)
        return r.returncode, r.stdout
    except subprocess.TimeoutExpired as e:
        return 124, (e.stdout or b"").decode(errors="replace") if isinstance(e.stdout, bytes) else (e.stdout or "")


def _classify(out):
    if "memory leaked" in out:
        return "miri-leak", next(l for l in out.splitlines() if "memory leaked" in l).strip()
    if "Data race detected" in out:
        return "miri-data-race", next(l for l in out.splitlines() if "Data race detected" in l).strip()
    if "Undefined Behavior" in out:
        return "miri-undefined-behaviour", next(l for l in out.splitlines() if "Undefined Behavior" in l).strip()
    m = re.search(r"panicked at [^\n]*\n[^\n]*", out)
    if m:
        return "miri-assertion", m.group(0).replace("\n", " ")
    return None, ""


def run(prop, scenarios, repo, seed, jobs, outdir):
    """scenarios: list of dict(name=..., argv=[...], seeds=N). Returns dict(runs, violations, summary)."""
    t0 = time.time()
    bdir = _build_dir(repo)
    total, violations, summary = 0, [], []
    for sc in scenarios:
        n = sc["seeds"]
        # seeds are derived from VERIF_SEED so that a different seed explores different schedules
        base = (seed * 1000003) % 1000000
        # a scenario may bring its own flags (the leak check is on for the thread-free ones)
        base_flags = sc.get("flags", BASE_FLAGS)
        flags = f"{base_flags} -Zmiri-many-seeds={base}..{base + n}"
        code, out = _miri(bdir, sc["argv"], flags, sc.get("timeout", 3600))
        ok_lines = len([l for l in out.splitlines() if " ok:" in l or l.startswith(sc["argv"][0] + " ok")])
        cls, msg = _classify(out)
        entry = dict(scenario=sc["name"], argv=sc["argv"], seeds=[base, base + n], exit=code, completed=ok_lines)
        if code == 0 and cls is None:
            total += n
        elif cls is not None:
            # find the first failing seed for an exact replay
            failing = None
            for s in range(base, base + n):
                c1, o1 = _miri(bdir, sc["argv"], f"{base_flags} -Zmiri-seed={s}", sc.get("timeout", 3600))
                total += 1
                if _classify(o1)[0] is not None:
                    failing, out = s, o1
                    cls, msg = _classify(o1)
                    break
            rdir = os.path.join(VERIF, "replays", prop) if repo == "/repo" else os.path.join(VERIF, "build", "replays-scratch", prop)
            os.makedirs(rdir, exist_ok=True)
            path = os.path.join(rdir, f"{prop}-miri-{sc['name']}-{failing}.json")
            json.dump(dict(property=prop, engine="miri", scenario=sc["name"], argv=sc["argv"], miri_seed=failing,
                           MIRIFLAGS=f"{base_flags} -Zmiri-seed={failing}",
                           how_to_replay=f"cd {bdir} && MIRIFLAGS='{base_flags} -Zmiri-seed={failing}' cargo +nightly miri run --offline -- " + " ".join(sc["argv"]),
                           violation=dict(**{"class": cls}, message=msg), output_tail=out[-3000:]), open(path, "w"), indent=1)
            violations.append({"class": cls, "index": failing, "message": f"[engine B, scenario {sc['name']}, miri seed {failing}] {msg}", "replay": path})
            entry["violation"] = cls
        else:
            # unsupported operation, timeout, build problem: not a verdict
            entry["inconclusive"] = out[-400:]
        summary.append(entry)
    return dict(runs=total, violations=violations,
                summary=dict(engine="miri (real rayon/crossbeam/parking_lot, no stubs)", flags=BASE_FLAGS, scenarios=summary,
                             wall_s=round(time.time() - t0, 1)))
